#!/bin/bash
# runs the native demonstrations of the known findings against the real build of /repo (overlay; /repo untouched)
cd "$(dirname "$0")/.."
. ./env.sh
tmp=$(mktemp -d)
trap 'rm -rf $tmp' EXIT
echo "{\"Replace\":{\"${1:-/repo}/internal/server/zz_verif_known_findings_test.go\":\"$(pwd)/findings/known_findings_test.go\"}}" > $tmp/overlay.json
cd "${1:-/repo}" && go test -vet=off -count=1 -overlay $tmp/overlay.json -run 'TestFinding_' -v ./internal/server/ 2>&1 | grep -E "^(=== RUN|--- |PASS|FAIL|ok|\s+.*Error)" 
