#!/bin/bash
# usage: try_mutant.sh <patch.diff> <ID> [tier]  -- applies the patch to /repo, runs the check, reverts
patch=$1; id=$2; tier=${3:-quick}
cd /repo || exit 9
git diff --quiet || { echo "repo dirty"; exit 9; }
git apply "$patch" || { echo "APPLY-FAILED"; exit 9; }
cd /verif
# the evidence file committed under /verif must describe the unchanged tree: keep it aside while the changed tree is checked
[ -f evidence/$id.json ] && cp evidence/$id.json /tmp/try_$$.evidence
timeout 1800 ./check $id --tier $tier > /tmp/try_$$.log 2>&1; rc=$?
[ -f /tmp/try_$$.evidence ] && mv /tmp/try_$$.evidence evidence/$id.json
git -C /repo checkout -- . ; git -C /repo clean -fdq internal
echo "rc=$rc $(grep -c '^VIOLATION' /tmp/try_$$.log) violations; $(grep -E '^(VIOLATION|INCONCLUSIVE|  violated)' /tmp/try_$$.log | head -3 | cut -c1-220 | tr '\n' '|')"
rm -f /tmp/try_$$.log
