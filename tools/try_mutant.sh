#!/bin/bash
# usage: try_mutant.sh <patch.diff> <ID> [tier]  -- applies the patch to /repo, runs the check, reverts
patch=$1; id=$2; tier=${3:-quick}
cd /repo || exit 9
git diff --quiet || { echo "repo dirty"; exit 9; }
git apply "$patch" || { echo "APPLY-FAILED"; exit 9; }
cd /verif && timeout 1800 ./check $id --tier $tier > /tmp/try_$$.log 2>&1; rc=$?
git -C /repo checkout -- . ; git -C /repo clean -fdq internal
echo "rc=$rc $(grep -c '^VIOLATION' /tmp/try_$$.log) violations; $(grep -E '^(VIOLATION|INCONCLUSIVE|  violated)' /tmp/try_$$.log | head -3 | cut -c1-220 | tr '\n' '|')"
rm -f /tmp/try_$$.log
