#!/bin/bash
# usage: try_mutant.sh <patch.diff> <ID> [tier]  -- applies the patch to a scratch worktree of /repo (TRY_REPO=/repo for the live tree), runs the check there, reverts
patch=$1; id=$2; tier=${3:-quick}
# the change is applied to a scratch worktree of /repo at HEAD (TRY_REPO, default /tmp/wt9), never to /repo itself
repo=${TRY_REPO:-/tmp/wt9}
[ -d "$repo" ] || git -C /repo worktree add -q --detach "$repo" HEAD || exit 9
cd "$repo" || exit 9
[ "$(git rev-parse HEAD)" = "$(git -C /repo rev-parse HEAD)" ] || git checkout -q --detach "$(git -C /repo rev-parse HEAD)"
git diff --quiet || { echo "repo dirty"; exit 9; }
git apply "$patch" || { echo "APPLY-FAILED"; exit 9; }
cd /verif
# the evidence file committed under /verif must describe the unchanged tree: keep it aside while the changed tree is checked
[ -f evidence/$id.json ] && cp evidence/$id.json /tmp/try_$$.evidence
timeout 1800 ./check $id --tier $tier --repo "$repo" > /tmp/try_$$.log 2>&1; rc=$?
[ -f /tmp/try_$$.evidence ] && mv /tmp/try_$$.evidence evidence/$id.json
git -C "$repo" checkout -- . ; git -C "$repo" clean -fdq internal
echo "rc=$rc $(grep -c '^VIOLATION' /tmp/try_$$.log) violations; $(grep -E '^(VIOLATION|INCONCLUSIVE|  violated)' /tmp/try_$$.log | head -3 | cut -c1-220 | tr '\n' '|')"
rm -f /tmp/try_$$.log
