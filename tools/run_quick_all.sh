#!/bin/bash
# runs every quick check once against /repo and prints verdict and wall time (regenerates evidence/*.json)
cd "$(dirname "$0")/.."
. ./env.sh
(cd engine && go build -o ../bin/gosym .) || exit 2
for id in ${1:-C01 C02 C03 C04 C05 C06 C07 C08 C09 C10 C11 C12 C13 C14 C15 C16 C17 C18 C19 C20}; do
  s=$(date +%s)
  out=$(./check $id quick 2>&1)
  rc=$?
  e=$(date +%s)
  echo "== $id rc=$rc wall=$((e-s))s"
  echo "$out" | grep -E "^(VIOLATION|INCONCLUSIVE|OK)" | cut -c1-220
done
