#!/bin/bash
# runs the owning check (quick tier) against every seeded change and records the outcome in seeded/<id>/result.txt
cd /verif
for d in seeded/*/; do
  n=$(basename $d); id=${n%%_*}
  [ -n "$1" ] && ! echo " $* " | grep -q " $n " && continue
  [ -f $d/patch.diff ] || continue
  owner=$id
  [ -f $d/owner_check ] && owner=$(cat $d/owner_check)
  res=$(tools/try_mutant.sh /verif/$d/patch.diff $owner quick 2>&1 | tail -1)
  echo "$n check=$owner $res" | cut -c1-600 | tee $d/result.txt
done
