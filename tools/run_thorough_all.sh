#!/bin/bash
# runs every thorough check once and prints verdict and wall time (for registering only bounds that ran clean)
cd "$(dirname "$0")/.."
. ./env.sh
(cd engine && go build -o ../bin/gosym .) || exit 2
for id in ${1:-C04 C05 C08 C09 C10 C13 C14 C15 C16 C19 C20 C11 C12 C06 C17 C01 C02 C07 C03 C18}; do
  s=$(date +%s)
  out=$(./check $id --tier thorough --repo "${VP_RUN_REPO:-/repo}" 2>&1)
  rc=$?
  e=$(date +%s)
  echo "== $id rc=$rc wall=$((e-s))s"
  echo "$out" | grep -E "^(harness|VIOLATION|INCONCLUSIVE|OK|KNOWN)" | cut -c1-220
done
