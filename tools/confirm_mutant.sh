#!/bin/bash
# usage: confirm_mutant.sh <dir with patch.diff demo_test.go> <worktree>
# confirms: compiles + existing suite passes with the change; demo fails with it and passes without it.
d=$1; wt=$2
export PATH=/root/go/pkg/mod/golang.org/toolchain@v0.0.1-go1.24.2.linux-amd64/bin:$PATH GOTOOLCHAIN=local GOFLAGS=-mod=readonly GOPROXY=off CGO_ENABLED=0
cd $wt || exit 9
git checkout -q -- . ; git clean -fdq internal
pkg=server; grep -q "^package cmd" $d/demo_test.go && pkg=cmd
demo=internal/$pkg/zz_demo_test.go
git apply $d/patch.diff || { echo "apply failed"; exit 1; }
go build ./... || { echo "BUILD-FAIL"; git checkout -q -- .; exit 1; }
suite=FAIL
for i in 1 2 3 4 5; do if go test -vet=off -count=1 -cpu 2 ./... >/tmp/confirm_suite.log 2>&1; then suite=PASS; break; fi; done
cp $d/demo_test.go $demo
if go test -vet=off -count=1 -run 'Demo|Seeded|Mut|C[0-9][0-9]' ./internal/$pkg/ >/tmp/confirm_demo_with.log 2>&1; then with=PASS; else with=FAIL; fi
if grep -q "no tests to run" /tmp/confirm_demo_with.log; then go test -vet=off -count=1 ./internal/$pkg/ >/tmp/confirm_demo_with.log 2>&1 && with=PASS || with=FAIL; fi
rm -f $demo; git checkout -q -- . ; git clean -fdq internal
cp $d/demo_test.go $demo
without=FAIL
for i in 1 2 3; do if go test -vet=off -count=1 -run 'Demo|Seeded|Mut|C[0-9][0-9]' ./internal/$pkg/ >/tmp/confirm_demo_without.log 2>&1; then without=PASS; break; fi; done
rm -f $demo
echo "suite_with_change=$suite demo_with_change=$with demo_without_change=$without"
