#!/bin/bash
# Self-test of the machinery: (1) model conformance tests of the engine, (2) the same harnesses decided by three
# solver builds (z3 4.8.12, z3 5.1.0, cvc5 1.0) must explore the same executions and agree on every verdict.
cd "$(dirname "$0")/.."
. ./env.sh
(cd engine && go build -o ../bin/gosym . && go test -count=1 -run 'TestStringModels|TestLinear' .) || { echo "SELFTEST FAILED: engine tests"; exit 1; }
fail=0
while read h pkg params; do
  ref=""
  for s in z3 z3-new cvc5; do
    line=$(./bin/gosym run -harness $h -pkg $pkg -params "$params" -solver $s -timeout 900 2>&1 | python3 -c "
import sys,json
t=sys.stdin.read(); i=t.index('{'); j=t.rindex('}'); r=json.loads(t[i:j+1])
print(r['executions'], len(r['violations'] or []), r['queries_unknown'], r['solver_errors'], sorted(r['covers'].items()))")
    echo "$h [$s]: $line"
    if [ -z "$ref" ]; then ref="$line"; elif [ "$ref" != "$line" ]; then echo "SOLVER DISAGREEMENT on $h: $s"; fail=1; fi
  done
done <<'LIST'
HarnessRouteLookup server keys=2,bindings=2,hostcap=4,pathcap=4,prefcap=3
HarnessRoutePort server hostcap=6
HarnessRolloutSplitAbs server valuecap=3,allowcap=2
HarnessRolloutHash server valuecap=6
HarnessBufferStep server maxlen=2
HarnessResponseBuffer server chunks=1,maxlen=2
HarnessRewriteStrip server tailcap=3
HarnessEnvPrecedence cmd valuecap=3
HarnessDeployGate server targets=1,probes=1,clients=1,preemptions=0,firings=10
HarnessPauseHoldDirected server preemptions=0,firings=10
LIST
# (3) litmus programs for the T2 engine: known races, lost updates, deadlocks and their absence must be reported as such
while read h want; do
  got=$(./bin/gosym run -harness HarnessLitmus$h -timeout 300 2>&1 | python3 -c "
import sys,json
t=sys.stdin.read(); i=t.index('{'); j=t.rindex('}'); r=json.loads(t[i:j+1])
kinds=set()
for v in r['violations'] or []:
    k=v['Kind']
    if k=='assert' and 'race expected' in v['Label']: continue   # mirrors the race report
    if k=='assert' and 'lost update expected' in v['Label']: k='lost-update'
    kinds.add(k)
print('+'.join(sorted(kinds)) or 'clean', 'unsupported' if r['unsupported'] else '')")
  echo "litmus $h: $got (expected $want)"
  [ "$(echo $got)" = "$want" ] || { echo "LITMUS MISMATCH on $h"; fail=1; }
done <<'LIST'
RacyCounter race
LockedCounter clean
SplitSection lost-update
Deadlock deadlock
ChannelHandoff clean
RWMutex clean
RWMutexMissingRLock race
Timers clean
OnceAtomic clean
OsSentinels clean
FormParse clean
LIST
[ $fail = 0 ] && echo "SELFTEST OK" || { echo "SELFTEST FAILED"; exit 1; }
