import sys,json
txt=sys.stdin.read(); i=txt.index('{'); j=txt.rindex('}'); r=json.loads(txt[i:j+1])
print(r['executions'], round(r['wall_s'],1), 'trunc' if r['truncated'] else '', r['unsupported'], r['covers'], r['end_reasons'], r.get('forks_by_kind'))
seen={}
for v in r['violations'] or []:
    d=v['Kind']+': '+v['Label']+' || '+v['Detail'].split('|')[-1].strip()
    seen[d]=seen.get(d,0)+1
for k,c in sorted(seen.items(), key=lambda x:-x[1])[:int(sys.argv[1]) if len(sys.argv)>1 else 20]: print(c,k[:600])
