#!/usr/bin/env python3
# writes seeded/<name>/meta.json from notes.md (what it needs), the confirmation logs and the last sweep result
import json, os, re, glob
confirm = {}
for f in ['/tmp/confirm_all.log', '/tmp/confirm_3.log', '/tmp/confirm_b2.log', '/verif/seeded/confirm.log']:
    if os.path.exists(f):
        for l in open(f):
            m = re.match(r'(C\d+_\w): (.*)', l.strip())
            if m: confirm[m.group(1)] = m.group(2)
for d in sorted(glob.glob('/verif/seeded/C*_*')):
    n = os.path.basename(d)
    notes = open(d + '/notes.md').read() if os.path.exists(d + '/notes.md') else ''
    needs = ''
    m = re.search(r'(?is)(needs?|manifest)[^\n]*\n(.{0,600})', notes)
    first = [l.strip() for l in notes.splitlines() if l.strip() and not l.startswith('#')]
    needs = ' '.join(first[:6])[:700]
    res = open(d + '/result.txt').read().strip() if os.path.exists(d + '/result.txt') else ''
    owner = open(d + '/owner_check').read().strip() if os.path.exists(d + '/owner_check') else n.split('_')[0]
    meta = {
        "name": n,
        "breaks_property": n.split('_')[0],
        "written_by": ("the revert of a fix: commit (regression seed), not a sub-agent" if "Not written by a sub-agent" in notes else "independent sub-agent given only the property text and a scratch worktree of /repo"),
        "needs_to_manifest": needs,
        "confirmed_by_me": {"how": "tools/confirm_mutant.sh in a scratch worktree: go build; existing suite (up to 5 attempts, -cpu 2); demo with the change; demo without it", "result": confirm.get(n, "see notes.md")},
        "checked_with": f"tools/try_mutant.sh seeded/{n}/patch.diff {owner} quick  (git apply in a scratch worktree of /repo at HEAD; ./check {owner} --tier quick --repo <worktree>; git checkout -- .)",
        "detected_by_check": owner,
        "last_sweep_result": res,
        "detected": ' rc=1 ' in (' ' + res + ' ')
    }
    json.dump(meta, open(d + '/meta.json', 'w'), indent=1)
print("ok")
