package cmd

import (
	"errors"
	"net/rpc"

	"github.com/spf13/cobra"
	"github.com/spf13/pflag"

	"github.com/basecamp/kamal-proxy/internal/server"
)

// ---- C20: CLI ----

func vItoa(n int) string {
	if n == 0 {
		return "0"
	}
	s := ""
	for n > 0 {
		s = string(rune('0'+n%10)) + s
		n /= 10
	}
	return s
}

// --- environment ---

type vEnvVar struct {
	present bool
	value   string
}

var vEnv = map[string]vEnvVar{}

//verif:stub os.LookupEnv
func stubLookupEnv(key string) (string, bool) {
	v := vEnv[key]
	if !v.present {
		return "", false
	}
	return v.value, true
}

// refAtoi: (value, ok) for a decimal integer with optional sign, as strconv.Atoi accepts it (bounded length, no overflow possible).
func refAtoi(s string, capN int) (int, bool) {
	n := len(s)
	neg := false
	start := 0
	if n > 0 {
		c := s[0]
		if c == '-' {
			neg, start = true, 1
		} else if c == '+' {
			start = 1
		}
	}
	if n-start < 1 {
		return 0, false
	}
	v := 0
	for i := start; i < n; i++ {
		d := s[i]
		if d < '0' || d > '9' {
			return 0, false
		}
		v = v*10 + int(d-'0')
	}
	if neg {
		v = -v
	}
	return v, true
}

func refParseBool(s string) (bool, bool) {
	switch s {
	case "1", "t", "T", "TRUE", "true", "True":
		return true, true
	case "0", "f", "F", "FALSE", "false", "False":
		return false, true
	}
	return false, false
}

func HarnessEnvPrecedence() {
	capV := vParam("valuecap", 4)
	pre := vEnvVar{present: vBool("prefixed_present"), value: vString("prefixed", capV)}
	bare := vEnvVar{present: vBool("bare_present"), value: vString("bare", capV)}
	vEnv["KAMAL_PROXY_HTTP_PORT"] = pre
	vEnv["HTTP_PORT"] = bare
	def := vInt("default")

	got := getEnvInt("HTTP_PORT", def)
	want := def
	if pre.present {
		if v, ok := refAtoi(pre.value, capV); ok {
			want = v
		}
	} else if bare.present {
		if v, ok := refAtoi(bare.value, capV); ok {
			want = v
		}
	}
	vAssert(got == want, "env: int option = prefixed variable, else bare variable, else default; malformed => default")

	vEnv["KAMAL_PROXY_DEBUG"] = pre
	vEnv["DEBUG"] = bare
	defB := vBool("default_bool")
	gotB := getEnvBool("DEBUG", defB)
	wantB := defB
	if pre.present {
		if v, ok := refParseBool(pre.value); ok {
			wantB = v
		}
	} else if bare.present {
		if v, ok := refParseBool(bare.value); ok {
			wantB = v
		}
	}
	vAssert(gotB == wantB, "env: bool option = prefixed variable, else bare variable, else default; malformed => default")
	vCover(pre.present && got != def, "prefixed value used reachable")
	vCover(!pre.present && bare.present && got != def, "bare value used reachable")
	vCover(pre.present && got == def, "malformed prefixed falls back to default reachable")
}

// --- pflag / cobra stubs: record (flag, default), expose Changed() as an arbitrary table ---

type vFlagDef struct {
	name string
	def  any
}

var vFlagDefs []vFlagDef
var vChanged = map[string]bool{}
var vTheFlagSet = &pflag.FlagSet{}

//verif:stub (*github.com/spf13/cobra.Command).Flags
func stubCmdFlags(c *cobra.Command) *pflag.FlagSet { return vTheFlagSet }

//verif:stub (*github.com/spf13/pflag.FlagSet).BoolVar
func stubBoolVar(f *pflag.FlagSet, p *bool, name string, value bool, usage string) {
	*p = value
	vFlagDefs = append(vFlagDefs, vFlagDef{name, value})
}

//verif:stub (*github.com/spf13/pflag.FlagSet).IntVar
func stubIntVar(f *pflag.FlagSet, p *int, name string, value int, usage string) {
	*p = value
	vFlagDefs = append(vFlagDefs, vFlagDef{name, value})
}

//verif:stub (*github.com/spf13/pflag.FlagSet).Changed
func stubChanged(f *pflag.FlagSet, name string) bool { return vChanged[name] }

func HarnessRunFlagWiring() {
	vEnv["KAMAL_PROXY_HTTP_PORT"] = vEnvVar{present: true, value: "8080"}
	vEnv["HTTPS_PORT"] = vEnvVar{present: true, value: "8443"}
	vEnv["KAMAL_PROXY_DEBUG"] = vEnvVar{present: true, value: "true"}
	newRunCommand()
	seen := map[string]any{}
	for _, d := range vFlagDefs {
		seen[d.name] = d.def
	}
	vAssert(seen["http-port"] == any(8080), "run: --http-port defaults to KAMAL_PROXY_HTTP_PORT / HTTP_PORT")
	vAssert(seen["https-port"] == any(8443), "run: --https-port defaults to KAMAL_PROXY_HTTPS_PORT / HTTPS_PORT")
	vAssert(seen["debug"] == any(true), "run: --debug defaults to KAMAL_PROXY_DEBUG / DEBUG")
	vEnv = map[string]vEnvVar{}
	vFlagDefs = nil
	newRunCommand()
	seen = map[string]any{}
	for _, d := range vFlagDefs {
		seen[d.name] = d.def
	}
	vAssert(seen["http-port"] == any(server.DefaultHttpPort) && seen["https-port"] == any(server.DefaultHttpsPort) && seen["debug"] == any(false), "run: defaults without environment")
	vCover(len(vFlagDefs) == 3, "three run flags")
}

// --- deploy validation ---

func HarnessDeployPreRun() {
	c := &deployCommand{}
	cobraCmd := &cobra.Command{}
	if !vSymbolic() {
		// native replay: a real command whose flags are really set (so that Changed() is the real pflag answer)
		c = newDeployCommand()
		cobraCmd = c.cmd
	}
	nh := vChoose("nhosts", 3)
	np := vChoose("nprefixes", 3)
	hasRoot := false
	for i := 0; i < nh; i++ {
		c.args.ServiceOptions.Hosts = append(c.args.ServiceOptions.Hosts, vString("host"+vItoa(i), 3))
	}
	for i := 0; i < np; i++ {
		p := vString("prefix"+vItoa(i), 3)
		c.args.ServiceOptions.PathPrefixes = append(c.args.ServiceOptions.PathPrefixes, p)
	}
	tls := vBool("tls")
	c.args.ServiceOptions.TLSEnabled = tls
	for _, n := range []string{"max-request-body", "buffer-requests", "max-response-body", "buffer-responses", "forward-headers"} {
		vChanged[n] = vBool("changed_" + n)
	}
	// flags that carry the lists / TLS: "changed" iff given (an explicitly empty --host "" also counts as given)
	vChanged["host"] = nh > 0 || vBool("empty_host_flag_given")
	vChanged["path-prefix"] = np > 0
	vChanged["tls"] = tls
	fwdGiven := vBool("forward_headers_value")
	c.args.TargetOptions.ForwardHeaders = fwdGiven
	if !vSymbolic() {
		for n, ch := range vChanged {
			if ch {
				val := "1"
				switch n {
				case "buffer-requests", "buffer-responses":
					val = "true"
				case "forward-headers":
					val = "false"
					if fwdGiven {
						val = "true"
					}
				}
				if n == "host" || n == "path-prefix" || n == "tls" {
					continue
				}
				cobraCmd.Flags().Set(n, val)
			}
		}
	}

	if !vSymbolic() && nh == 0 && vChanged["host"] {
		cobraCmd.Flags().Set("host", "")
	}
	err := c.preRun(cobraCmd, []string{"svc"})

	// the root path is listed if no prefix is given (default "/") or some prefix normalises to "/"
	if np == 0 {
		hasRoot = true
	}
	for _, p := range c.args.ServiceOptions.PathPrefixes {
		hasRoot = vOr(hasRoot, p == "/")
	}
	noHost := nh == 0
	emptyHost := false // an explicitly empty host: the statement does not settle whether that counts as "a host"
	for _, h := range c.args.ServiceOptions.Hosts {
		emptyHost = vOr(emptyHost, h == "")
	}
	limits := vOr(vAnd(vChanged["max-request-body"], !vChanged["buffer-requests"]), vAnd(vChanged["max-response-body"], !vChanged["buffer-responses"]))
	mustRefuse := vOr(limits, vAnd(tls, vOr(noHost, !hasRoot)))
	mayRefuse := vOr(mustRefuse, vAnd(tls, emptyHost))
	vAssert(vImplies(mustRefuse, err != nil), "deploy: refused before contacting the proxy when a body limit lacks its buffering flag, or TLS is set without a host / without the root path")
	vAssert(vImplies(err != nil, mayRefuse), "deploy: not refused otherwise")
	if err == nil {
		wantFwd := !tls
		if vChanged["forward-headers"] {
			wantFwd = fwdGiven
		}
		vAssert(c.args.TargetOptions.ForwardHeaders == wantFwd, "deploy: forward-headers defaults to !tls unless given")
	}
	vCover(err != nil && tls && noHost, "tls without host refused reachable")
	vCover(err == nil && tls, "tls accepted reachable")
}

// --- client commands: exit status follows the proxy's answer ---

var vDialErr, vCallErr error
var vCalls []string
var vCallArgs []any
var vClosed int
var vListReply server.ServiceDescriptionMap
var errVRPC = errors.New("rpc error (model)")

//verif:stub net/rpc.Dial
func stubRPCDial(network, address string) (*rpc.Client, error) {
	if vDialErr != nil {
		return nil, vDialErr
	}
	return &rpc.Client{}, nil
}

//verif:stub (*net/rpc.Client).Call
func stubRPCCall(c *rpc.Client, serviceMethod string, args any, reply any) error {
	vCalls = append(vCalls, serviceMethod)
	vCallArgs = append(vCallArgs, args)
	if vCallErr != nil {
		return vCallErr
	}
	if lr, ok := reply.(*server.ListResponse); ok {
		lr.Targets = vListReply
	}
	return nil
}

//verif:stub (*net/rpc.Client).Close
func stubRPCClose(c *rpc.Client) error { vClosed++; return nil }

//verif:stub (github.com/basecamp/kamal-proxy/internal/server.Config).SocketPath
func stubSocketPath(c server.Config) string { return "/run/kamal-proxy.sock" }

//verif:stub (github.com/basecamp/kamal-proxy/internal/server.Config).CertificatePath
func stubCertificatePath(c server.Config) string { return "/certs" }

var vPrinted [][]string

//verif:stub (*github.com/basecamp/kamal-proxy/internal/cmd.Table).Print
func stubTablePrint(t *Table) { vPrinted = t.Rows }

func HarnessClientExit() {
	if vChoose("dial_fails", 2) == 1 {
		vDialErr = errVRPC
	}
	if vChoose("call_fails", 2) == 1 {
		vCallErr = errVRPC
	}
	name := vString("service", 3)
	which := vChoose("command", 9)
	var err error
	wantMethod := ""
	switch which {
	case 0:
		c := &deployCommand{}
		c.args.ServiceOptions.TLSEnabled = vBool("tls")
		c.tlsStaging = vBool("staging")
		err, wantMethod = c.run(nil, []string{name}), "kamal-proxy.Deploy"
		if vDialErr == nil {
			a := vCallArgs[0].(server.DeployArgs)
			vAssert(a.Service == name, "client: deploy sends the service name")
			vAssert(vImplies(c.args.ServiceOptions.TLSEnabled, a.ServiceOptions.ACMECachePath == "/certs"), "client: deploy with TLS sends the certificate cache path")
			vAssert((a.ServiceOptions.ACMEDirectory == server.ACMEStagingDirectoryURL) == vAnd(c.args.ServiceOptions.TLSEnabled, c.tlsStaging), "client: staging directory iff tls and tls-staging")
		}
	case 1:
		c := &removeCommand{}
		err, wantMethod = c.run(nil, []string{name}), "kamal-proxy.Remove"
		if vDialErr == nil {
			vAssert(vCallArgs[0].(server.RemoveArgs).Service == name, "client: remove sends the service name")
		}
	case 2:
		c := &pauseCommand{}
		err, wantMethod = c.run(nil, []string{name}), "kamal-proxy.Pause"
		if vDialErr == nil {
			vAssert(vCallArgs[0].(server.PauseArgs).Service == name, "client: pause sends the service name")
		}
	case 3:
		c := &stopCommand{}
		c.args.Message = vString("message", 3)
		err, wantMethod = c.run(nil, []string{name}), "kamal-proxy.Stop"
		if vDialErr == nil {
			a := vCallArgs[0].(server.StopArgs)
			vAssert(a.Service == name && a.Message == c.args.Message, "client: stop sends the service name and message")
		}
	case 4:
		c := &resumeCommand{}
		err, wantMethod = c.run(nil, []string{name}), "kamal-proxy.Resume"
		if vDialErr == nil {
			vAssert(vCallArgs[0].(server.ResumeArgs).Service == name, "client: resume sends the service name")
		}
	case 5:
		c := &listCommand{}
		err, wantMethod = c.run(nil, nil), "kamal-proxy.List"
	case 6:
		c := &rolloutDeployCommand{}
		err, wantMethod = c.run(nil, []string{name}), "kamal-proxy.RolloutDeploy"
		if vDialErr == nil {
			vAssert(vCallArgs[0].(server.RolloutDeployArgs).Service == name, "client: rollout deploy sends the service name")
		}
	case 7:
		c := &rolloutSetCommand{}
		c.args.Percentage = vIntRange("pct", 0, 100)
		err, wantMethod = c.run(nil, []string{name}), "kamal-proxy.RolloutSet"
		if vDialErr == nil {
			a := vCallArgs[0].(server.RolloutSetArgs)
			vAssert(a.Service == name && a.Percentage == c.args.Percentage, "client: rollout set sends name and percentage")
		}
	case 8:
		c := &rolloutStopCommand{}
		err, wantMethod = c.run(nil, []string{name}), "kamal-proxy.RolloutStop"
		if vDialErr == nil {
			vAssert(vCallArgs[0].(server.RolloutStopArgs).Service == name, "client: rollout stop sends the service name")
		}
	}
	wantErr := vDialErr != nil || vCallErr != nil
	vAssert((err != nil) == wantErr, "client: the command fails exactly when the proxy (or the connection) reports an error")
	if vDialErr == nil {
		vAssert(len(vCalls) == 1 && vCalls[0] == wantMethod, "client: exactly one call of the command's method")
		vAssert(vClosed == 1, "client: connection closed")
	} else {
		vAssert(len(vCalls) == 0, "client: nothing called without a connection")
	}
	vCover(err != nil && vDialErr == nil, "proxy-side error reachable")
	vCover(err == nil, "success reachable")
}

func HarnessListRender() {
	n := vChoose("nservices", 3)
	vListReply = server.ServiceDescriptionMap{}
	names := []string{}
	for i := 0; i < n; i++ {
		name := vString("name"+vItoa(i), 2)
		for _, o := range names {
			vAssume(o != name)
		}
		names = append(names, name)
		vListReply[name] = server.ServiceDescription{Host: vString("host"+vItoa(i), 2), Path: vString("path"+vItoa(i), 2), Target: vString("target"+vItoa(i), 2),
			State: vString("state"+vItoa(i), 2), TLS: vBool("tls" + vItoa(i))}
	}
	c := &listCommand{}
	vAssert(c.run(nil, nil) == nil, "list: succeeds")
	vAssert(len(vPrinted) == n+1, "list: one row per deployed service plus the header")
	if len(vPrinted) == n+1 {
		h := vPrinted[0]
		vAssert(len(h) == 6 && h[0] == "Service" && h[1] == "Host" && h[2] == "Path" && h[3] == "Target" && h[4] == "State" && h[5] == "TLS", "list: header")
		for i := 1; i <= n; i++ {
			row := vPrinted[i]
			d, ok := vListReply[row[0]]
			vAssert(ok, "list: every row is a deployed service")
			tls := "no"
			if d.TLS {
				tls = "yes"
			}
			vAssert(row[1] == d.Host && row[2] == d.Path && row[3] == d.Target && row[4] == d.State && row[5] == tls, "list: row shows the service's host, path, target, state and TLS flag")
			if i > 1 {
				vAssert(vPrinted[i-1][0] < row[0], "list: rows sorted by service name, each service once")
			}
		}
	}
	vCover(n == 2, "two services reachable")
}
