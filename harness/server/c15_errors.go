package server

import (
	"context"
	"errors"
	"net/http"
)

// ---- C15: target failures ----

type vNetErr struct{ timeout bool }

func (e *vNetErr) Error() string   { return "net error (model)" }
func (e *vNetErr) Timeout() bool   { return e.timeout }
func (e *vNetErr) Temporary() bool { return false }

type vWrapErr struct{ inner error }

func (e *vWrapErr) Error() string { return "wrapped: " + e.inner.Error() }
func (e *vWrapErr) Unwrap() error { return e.inner }

const (
	vKindOpaque = iota
	vKindMaxBytes
	vKindNetTimeout
	vKindNetOther
	vKindCanceled
	vKindDraining
	vNumKinds
)

func vMakeErr(kind int) error {
	switch kind {
	case vKindMaxBytes:
		return &http.MaxBytesError{Limit: 10}
	case vKindNetTimeout:
		return &vNetErr{timeout: true}
	case vKindNetOther:
		return &vNetErr{timeout: false}
	case vKindCanceled:
		return context.Canceled
	case vKindDraining:
		return ErrorDraining
	}
	return errors.New("connection refused (model)")
}

// vTypedWrap: an error of the given kind that also wraps inner (as net.OpError / url.Error style wrappers do).
type vNetWrap struct {
	vNetErr
	inner error
}

func (e *vNetWrap) Unwrap() error { return e.inner }

func HarnessProxyError() {
	depth := 1 + vChoose("depth", vParam("depth", 3))
	kinds := []int{}
	for i := 0; i < depth; i++ {
		kinds = append(kinds, vChoose("kind"+vItoa(i), vNumKinds))
	}
	// build from the leaf outwards; intermediate levels either wrap plainly (fmt.Errorf %w style) or are typed net errors that wrap
	var err error = vMakeErr(kinds[depth-1])
	for i := depth - 2; i >= 0; i-- {
		switch kinds[i] {
		case vKindNetTimeout:
			err = &vNetWrap{vNetErr{true}, err}
		case vKindNetOther:
			err = &vNetWrap{vNetErr{false}, err}
		default:
			kinds[i] = vKindOpaque
			err = &vWrapErr{err}
		}
	}
	// reference classification (precedence of the statement / code): too large, timeout, client gone, draining, else bad gateway
	has := func(k int) bool {
		for _, x := range kinds {
			if x == k {
				return true
			}
		}
		return false
	}
	firstNet := -1
	for i, x := range kinds {
		if x == vKindNetTimeout || x == vKindNetOther {
			firstNet = i
			break
		}
	}
	want := 502
	switch {
	case has(vKindMaxBytes):
		want = 413
	case firstNet >= 0 && kinds[firstNet] == vKindNetTimeout:
		want = 504
	case has(vKindCanceled):
		want = 499
	case has(vKindDraining):
		want = 504
	}
	customMode := vChoose("custom", 3)
	page := vItoa(want) + ".html"
	t := vBareTarget("t1", TargetStateHealthy)
	var inner http.Handler = http.HandlerFunc(func(w http.ResponseWriter, r *http.Request) {
		t.handleProxyError(w, r, err)
	})
	if vChoose("buffer_responses", 2) == 1 {
		// the same failure behind the response-buffering middleware (as NewTarget wires it)
		inner = WithResponseBufferMiddleware(1024, 0, inner)
	}
	// the service's own handler chain as the real constructor builds it (custom error pages, when configured, inside the
	// root's built-in pages), in front of a balancer whose only target fails in the chosen way
	opts := ServiceOptions{Hosts: []string{"h"}}
	if customMode != 0 {
		vCustomSets["/pages"] = &vPageSet{name: "custom", has: map[string]bool{page: customMode == 1}}
		opts.ErrorPagePath = "/pages"
	}
	svc, serr := NewService("svc", opts, TargetOptions{HealthCheckConfig: HealthCheckConfig{Path: "/up"}})
	vAssert(serr == nil, "proxyerr: service builds")
	t.proxyHandler = inner
	lb := &LoadBalancer{healthy: TargetList{}, all: TargetList{t}}
	t.stateConsumer = lb
	lb.updateHealthyTargets()
	svc.active = lb
	root := vRootChain(svc)
	w := vNewRecorder()
	root.ServeHTTP(w, vPlainRequest("/x"))
	w.finish()
	vAssert(w.status == want, "proxyerr: 413 / 504 (no response headers in time) / 499 / 504 (draining) / 502 in that precedence")
	if want == 499 {
		vAssert(len(w.body) == 0, "proxyerr: 499 carries no page")
	} else if customMode == 1 {
		vAssert(string(w.body) == "PAGE[custom/"+page+"]", "proxyerr: custom page for that status if the service has one")
	} else {
		vAssert(string(w.body) == "PAGE[builtin/"+page+"]", "proxyerr: built-in page otherwise")
	}
	vCover(want == 502, "502 reachable")
	vCover(want == 504 && has(vKindDraining) && firstNet < 0, "draining 504 reachable")
	vCover(want == 499, "499 reachable")
}

// vFaultyHandler: the proxy ends in one of its failure modes.
type vFaultyHandler struct {
	t    *Target
	mode int // 0 normal, 1 error before headers, 2 abort after headers, 3 abort before anything
	err  error
	ctx  context.Context
}

func (h *vFaultyHandler) ServeHTTP(w http.ResponseWriter, r *http.Request) {
	h.ctx = r.Context()
	switch h.mode {
	case 0:
		w.WriteHeader(200)
		w.Write([]byte("ok"))
	case 1:
		h.t.handleProxyError(w, r, h.err)
	case 2:
		w.WriteHeader(200)
		w.Write([]byte("par"))
		panic(errVAbort)
	case 3:
		panic(errVAbort)
	}
}

func HarnessNoResidue() {
	lb := vBalancer("t1")
	t := lb.all[0]
	fh := &vFaultyHandler{t: t, mode: vChoose("mode", 4), err: vMakeErr(vChoose("errkind", vNumKinds))}
	t.proxyHandler = fh
	root := vRootChain(lb)
	w := vNewRecorder()
	panicked := vCallRecovering(func() { root.ServeHTTP(w, vPlainRequest("/x")) })
	vAssert(panicked == (fh.mode >= 2), "residue: only an aborted response propagates as a panic (visibly cut short)")
	vAssert(len(t.inflight) == 0, "residue: the failed request is no longer in flight")
	vAssert(fh.ctx != nil && fh.ctx.Err() != nil, "residue: the request's context is released")
	// a later drain does not wait for it
	before := vNow()
	d := vDuration("drain")
	vAssume(d >= 0 && d < 1<<40)
	t.Drain(d)
	vAssert(vNow() == before, "residue: a later drain returns at once")
	vAssert(t.State() == TargetStateHealthy, "residue: target state restored after drain")
	// the proxy keeps serving
	fh.mode = 0
	w2 := vNewRecorder()
	root.ServeHTTP(w2, vPlainRequest("/y"))
	vAssert(w2.status == 200 && string(w2.body) == "ok", "residue: the proxy keeps serving")
	vCover(fh.mode == 0 && panicked, "abort reachable")
}
