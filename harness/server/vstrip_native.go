package server

//verif:native-only

import (
	"context"
	"net/http"
)

func vWithStripContext(req *http.Request, prefix string) *http.Request {
	return req.WithContext(context.WithValue(req.Context(), contextKeyRoutingContext, &routingContext{MatchedPrefix: prefix}))
}

func vMatchedPrefix(r *http.Request) (string, bool) {
	rc := RoutingContext(r)
	if rc == nil {
		return "", false
	}
	return rc.MatchedPrefix, true
}
