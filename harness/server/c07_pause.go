package server

import (
	"context"
	"net/http"
	"net/url"
)

// ---- C07: a paused service holds requests and releases them intact (T2) ----

func vDoRequestM(h http.Handler, n int, method, host, path string) {
	req := &http.Request{Method: method, URL: &url.URL{Path: path}, Header: http.Header{}, Host: host, RemoteAddr: "1.2.3.4:5"}
	req = req.WithContext(context.WithValue(context.Background(), vReqKey, n))
	w := vNewRecorder()
	vEmit(vEvent{kind: "arrive", req: n})
	h.ServeHTTP(w, req)
	w.finish()
	vClientResults[n] = &vClientResult{done: true, status: w.status, body: string(w.body), at: vNow()}
	vEmit(vEvent{kind: "respond", req: n, status: w.status, note: string(w.body)})
}

// HarnessPauseHoldDirected: the client passes the gate while the service is still running and is descheduled there;
// the pause's drain is suspended right after the target entered the draining state, and the client resumes.
func HarnessPauseHoldDirected() {
	vDirected = true
	vHoldAfterGate = true
	vSuspendDrain = true
	HarnessPauseHold()
}

func HarnessPauseHold() {
	vT2(vParam("preemptions", 1), vParam("firings", 10))
	vSortMode = 0
	router := NewRouter("/state")
	interval := vDur("interval")
	vAssume(interval > 0)
	ptimeout := vDur("probe_timeout")
	deployTimeout := vDur("deploy_timeout")
	drainTimeout := vDur("drain_timeout")
	maxPause := vDur("max_pause")
	topts := TargetOptions{HealthCheckConfig: HealthCheckConfig{Path: "/up", Interval: interval, Timeout: ptimeout}}
	vInstallOldService(router, topts)
	root := vRootChain(router)

	health := vChoose("health_request", 2) == 1
	method, path := "POST", "/x"
	if health {
		method, path = "GET", "/up"
	}
	arrival := vIntRange("arrival", 0, vParam("arrival_points", 8))
	vProxyPlans[0] = &vProxyPlan{service: 0}
	clientParked := true
	go func() {
		vDaemon()
		vArriveAfter(arrival)
		clientParked = false
		vDoRequestM(root, 0, method, "h", path)
	}()

	// the operator acts after an arbitrary number of further events, or once nothing else can happen before it does
	after := func(name string) {
		k := vIntRange(name, 0, vParam("arrival_points", 8))
		vBlockUntil(func() bool { return len(vTrace) >= k || vAtGate > 0 || vClientResults[0] != nil || clientParked })
	}
	if vDirected {
		vAssume(!health)
		vAssume(arrival == 0)
		vBlockUntil(func() bool { return vHeld == 1 || vClientResults[0] != nil })
	}
	// the operator: pause, then one continuation
	stopMsg := vString("stop_msg", 3)
	vAssert(router.PauseService("svc", drainTimeout, maxPause) == nil, "pause: pause accepted")
	vEmit(vEvent{kind: "paused"})
	cont := vChoose("continuation", 7) // 0 wait for the timeout, 1 resume, 2 stop, 3 resume+pause, 4 redeploy then resume, 5 pause again then resume, 6 pause again then stop
	released := ""
	switch cont {
	case 1:
		after("resume_after")
		vAssert(router.ResumeService("svc") == nil, "pause: resume accepted")
		vEmit(vEvent{kind: "resumed"})
		released = "resume"
	case 2:
		after("stop_after")
		vAssert(router.StopService("svc", drainTimeout, stopMsg) == nil, "pause: stop accepted")
		vEmit(vEvent{kind: "stopped"})
		released = "stop"
	case 3:
		after("resume_after")
		vAssert(router.ResumeService("svc") == nil, "pause: resume accepted")
		vEmit(vEvent{kind: "resumed"})
		vAssert(router.PauseService("svc", drainTimeout, maxPause) == nil, "pause: second pause accepted")
		vEmit(vEvent{kind: "paused"})
		released = "resume+pause"
	case 5, 6:
		after("repause_after")
		vAssert(router.PauseService("svc", drainTimeout, maxPause) == nil, "pause: repeated pause accepted")
		vEmit(vEvent{kind: "paused"})
		after("release_after")
		if cont == 5 {
			vAssert(router.ResumeService("svc") == nil, "pause: resume accepted")
			vEmit(vEvent{kind: "resumed"})
			released = "resume"
		} else {
			vAssert(router.StopService("svc", drainTimeout, stopMsg) == nil, "pause: stop accepted")
			vEmit(vEvent{kind: "stopped"})
			released = "stop"
		}
	case 4:
		lat := vDur("lat")
		vAssume(lat < ptimeout && lat < deployTimeout)
		vProbeScripts["new0:80"] = &vProbeScript{parkAfter: true, outcomes: []vProbeOutcome{{kind: vProbeStatus, status: 200, latency: lat}}}
		after("redeploy_after")
		vAssert(router.DeployService("svc", []string{"new0:80"}, ServiceOptions{Hosts: []string{"h"}}, topts, deployTimeout, drainTimeout) == nil, "pause: redeploy while paused accepted")
		vEmit(vEvent{kind: "redeployed"})
		vAssert(router.ResumeService("svc") == nil, "pause: resume accepted")
		vEmit(vEvent{kind: "resumed"})
		released = "redeploy+resume"
	}
	vCmdReturned = true
	vBlockUntil(func() bool { return vClientsSettled(1) })
	vNote(vTraceString())

	res := vClientResults[0]
	vAssert(res != nil, "pause: every request is eventually answered")
	if res == nil {
		return
	}
	gi := vIndexOf("gate_enter", -1)
	fwd := vIndexOf("forward_begin", 0)
	if health {
		// answered by the proxy itself while paused (or forwarded if it arrived after a resume)
		vAssert(res.status == 200, "pause: GET on exactly the health-check path is answered 200 throughout")
		if gi < 0 {
			vAssert(fwd < 0, "pause: the health request answered by the proxy is not forwarded")
		}
		vCover(gi < 0, "health check answered by the proxy reachable")
		return
	}
	vAssert(gi >= 0, "pause: a non-health request consults the pause gate")
	if gi < 0 {
		return
	}
	heldWhilePaused := PauseState(vTrace[gi].status) == PauseStatePaused // the gate saw the service paused
	gateAt := vTrace[gi].at
	if PauseState(vTrace[gi].status) == PauseStateStopped {
		vAssert(res.status == 503 && fwd < 0, "pause: a request arriving after stop is answered 503 and not forwarded")
		return
	}
	if !heldWhilePaused {
		// the gate saw the service running: neither pause nor stop may turn this request into a proxy error
		if res.status == 503 {
			vAssert(false, "pause: issuing the pause never causes a request to be refused [request past the gate when the drain began]")
		}
		vCover(res.status == 200, "request before the pause served reachable")
		return
	}
	timeoutAt := gateAt + int64(maxPause)
	// the first resume / stop that took effect after the request reached the gate
	resumedIdx, stoppedIdx := -1, -1
	for k := gi + 1; k < len(vTrace); k++ {
		if vTrace[k].kind == "resume_effective" && resumedIdx < 0 {
			resumedIdx = k
		}
		if vTrace[k].kind == "stop_effective" && stoppedIdx < 0 {
			stoppedIdx = k
		}
	}
	li := vIndexOf("gate_leave", -1)
	switch {
	case res.status == 504:
		vAssert(res.at == timeoutAt, "pause: a held request is answered 504 exactly when it has been held for max-pause")
		vAssert(fwd < 0, "pause: a timed-out request is not forwarded")
		if resumedIdx >= 0 {
			vAssert(vTrace[resumedIdx].at >= timeoutAt, "pause: 504 only if no resume came within max-pause")
		}
		if stoppedIdx >= 0 {
			vAssert(vTrace[stoppedIdx].at >= timeoutAt, "pause: 504 only if no stop came within max-pause")
		}
	case res.status == 503:
		vAssert(released == "stop" && stoppedIdx >= 0 && li > stoppedIdx, "pause: a held request is refused only by stop")
		vAssert(res.body == "PAGE[builtin/503.html]" && len(vRenders) == 1, "pause: stop answers the held request with the 503 page")
		if len(vRenders) == 1 {
			got, ok := vRenders[0].args.(struct{ Message string })
			vAssert(ok && got.Message == stopMsg, "pause: ... carrying the stop message")
		}
		vAssert(res.at <= timeoutAt, "pause: stop releases before the request's own timeout")
	case res.status == 200:
		// forwarded: only after a resume, and to the targets the service has at that moment
		vAssert(resumedIdx >= 0 && fwd > resumedIdx, "pause: a held request is forwarded only after resume")
		want := "FROM[old:80]"
		if cont == 4 {
			want = "FROM[new0:80]"
		}
		if res.body != want {
			vAssert(false, "pause: on resume a held request is forwarded to the targets the service has at that moment [waiter holds the service object replaced by a redeploy]")
		}
		if cont == 3 {
			// resumed and immediately paused again: a request still held must stay held unless it was released in between
			secondPause := vLastIndexOf("pause_effective")
			if secondPause > resumedIdx && li > secondPause && fwd > secondPause {
				vAssert(false, "pause: a request is not forwarded while the service is paused [woken waiter re-reads the state after resume+pause]")
			}
		}
	default:
		vAssert(false, "pause: a held request ends as forwarded (200), stopped (503) or timed out (504)")
	}
	vCover(res.status == 504, "held request timed out reachable")
	vCover(res.status == 503, "held request stopped reachable")
	vCover(res.status == 200 && cont == 1, "held request resumed reachable")
}
