package server

import (
	"context"
	"net/http"
	"net/url"
	"time"
)

// ---- C07: a paused service holds requests and releases them intact (T2) ----

func vDoRequestM(h http.Handler, n int, method, host, path string) {
	vDoRequestC(h, n, method, host, path, "")
}

func vDoRequestC(h http.Handler, n int, method, host, path, cookie string) {
	req := &http.Request{Method: method, URL: &url.URL{Path: path}, Header: http.Header{}, Host: host, RemoteAddr: "1.2.3.4:5"}
	if cookie != "" {
		req.Header["Cookie"] = []string{cookie}
	}
	req = req.WithContext(context.WithValue(context.Background(), vReqKey, n))
	w := vNewRecorder()
	vEmit(vEvent{kind: "arrive", req: n})
	h.ServeHTTP(w, req)
	w.finish()
	vClientResults[n] = &vClientResult{done: true, status: w.status, body: string(w.body), at: vNow()}
	vEmit(vEvent{kind: "respond", req: n, status: w.status, note: string(w.body)})
}

// HarnessPauseHoldDirected: the client passes the gate while the service is still running and is descheduled there;
// the pause's drain is suspended right after the target entered the draining state, and the client resumes.
func HarnessPauseHoldDirected() {
	vDirected = true
	vHoldAfterGate = true
	vSuspendDrain = true
	HarnessPauseHold()
}

func HarnessPauseHold() {
	vT2(vParam("preemptions", 1), vParam("firings", 10))
	vWatchPauseEvents()
	if !vDirected && vParam("policies", 2) == 2 {
		// both default scheduling policies (earliest-started first / latest-started first) are explored
		vSchedPolicy(vChoose("sched_policy", 2))
	}
	vSortMode = 0
	router := NewRouter("/state")
	interval := vDur("interval")
	vAssume(interval > 0)
	ptimeout := vDur("probe_timeout")
	deployTimeout := vDur("deploy_timeout")
	drainTimeout := vDur("drain_timeout")
	maxPause := vDur("max_pause")
	topts := TargetOptions{HealthCheckConfig: HealthCheckConfig{Path: "/up", Interval: interval, Timeout: ptimeout}}
	svc, _ := vInstallOldService(router, topts)
	root := vRootChain(router)

	health := vChoose("health_request", 2) == 1
	method, path := "POST", "/x"
	if health {
		method, path = "GET", "/up"
	}
	// rollout scenario: the service also has rollout targets and the client has opted in to them; while it is held the
	// rollout targets are replaced in place (continuation 7)
	rolloutScenario := !vDirected && vParam("rollout_scenario", 1) == 1 && vChoose("rollout_scenario", 2) == 1
	if rolloutScenario {
		t, _ := NewTarget("rold:80", topts)
		t.state = TargetStateHealthy
		lb := &LoadBalancer{healthy: TargetList{}, all: TargetList{t}}
		t.stateConsumer = lb
		lb.updateHealthyTargets()
		svc.rollout = lb
		svc.rolloutController = NewRolloutController(0, []string{"x"})
	}
	arrival := vIntRange("arrival", 0, vParam("arrival_points", 8))
	vProxyPlans[0] = &vProxyPlan{service: 0}
	clientParked := true
	go func() {
		vDaemon()
		vArriveAfter(arrival)
		clientParked = false
		if rolloutScenario {
			vDoRequestC(root, 0, method, "h", path, RolloutCookieName+"=x")
		} else {
			vDoRequestM(root, 0, method, "h", path)
		}
	}()

	// the operator acts after an arbitrary number of further events, or once nothing else can happen before it does
	after := func(name string) {
		k := vIntRange(name, 0, vParam("arrival_points", 8))
		vBlockUntil(func() bool { return len(vTrace) >= k || vAtGate > 0 || vClientResults[0] != nil || clientParked })
	}
	if vDirected {
		vAssume(!health)
		vAssume(arrival == 0)
		vBlockUntil(func() bool { return vHeld == 1 || vClientResults[0] != nil })
	}
	// the operator: pause, then one continuation. It runs in its own goroutine, so that the scheduler (and not the
	// harness) decides how far the client has got when the pause lands
	stopMsg := vString("stop_msg", 3)
	cont := 0
	released := ""
	opDone := false
	operator := func() {
		vAssert(router.PauseService("svc", drainTimeout, maxPause) == nil, "pause: pause accepted")
		vEmit(vEvent{kind: "paused"})
		cont = 7 // rollout targets replaced while paused, then resume
		if !rolloutScenario {
			cont = vChoose("continuation", 7) // 0 wait for the timeout, 1 resume, 2 stop, 3 resume+pause, 4 redeploy then resume, 5 pause again then resume, 6 pause again then stop
		}
		switch cont {
		case 1:
			after("resume_after")
			vAssert(router.ResumeService("svc") == nil, "pause: resume accepted")
			vEmit(vEvent{kind: "resumed"})
			released = "resume"
		case 2:
			after("stop_after")
			vAssert(router.StopService("svc", drainTimeout, stopMsg) == nil, "pause: stop accepted")
			vEmit(vEvent{kind: "stopped"})
			released = "stop"
		case 3:
			after("resume_after")
			vAssert(router.ResumeService("svc") == nil, "pause: resume accepted")
			vEmit(vEvent{kind: "resumed"})
			vAssert(router.PauseService("svc", drainTimeout, maxPause) == nil, "pause: second pause accepted")
			vEmit(vEvent{kind: "paused"})
			released = "resume+pause"
		case 5, 6:
			after("repause_after")
			vAssert(router.PauseService("svc", drainTimeout, maxPause) == nil, "pause: repeated pause accepted")
			vEmit(vEvent{kind: "paused"})
			after("release_after")
			if cont == 5 {
				vAssert(router.ResumeService("svc") == nil, "pause: resume accepted")
				vEmit(vEvent{kind: "resumed"})
				released = "resume"
			} else {
				vAssert(router.StopService("svc", drainTimeout, stopMsg) == nil, "pause: stop accepted")
				vEmit(vEvent{kind: "stopped"})
				released = "stop"
			}
		case 7:
			lat := vDur("lat")
			vAssume(lat < ptimeout && lat < deployTimeout)
			vProbeScripts["r1:80"] = &vProbeScript{parkAfter: true, outcomes: []vProbeOutcome{{kind: vProbeStatus, status: 200, latency: lat}}}
			after("rollout_after")
			vAssert(router.SetRolloutTargets("svc", []string{"r1:80"}, deployTimeout, drainTimeout) == nil, "pause: rollout deploy while paused accepted")
			vEmit(vEvent{kind: "rollout_deployed"})
			vAssert(router.ResumeService("svc") == nil, "pause: resume accepted")
			vEmit(vEvent{kind: "resumed"})
			released = "rollout+resume"
		case 4:
			lat := vDur("lat")
			vAssume(lat < ptimeout && lat < deployTimeout)
			vProbeScripts["new0:80"] = &vProbeScript{parkAfter: true, outcomes: []vProbeOutcome{{kind: vProbeStatus, status: 200, latency: lat}}}
			after("redeploy_after")
			vAssert(router.DeployService("svc", []string{"new0:80"}, ServiceOptions{Hosts: []string{"h"}}, topts, deployTimeout, drainTimeout) == nil, "pause: redeploy while paused accepted")
			vEmit(vEvent{kind: "redeployed"})
			vAssert(router.ResumeService("svc") == nil, "pause: resume accepted")
			vEmit(vEvent{kind: "resumed"})
			released = "redeploy+resume"
		}
		opDone = true
	}
	if vDirected {
		operator()
	} else {
		go operator()
		vBlockUntil(func() bool { return opDone })
	}
	vCmdReturned = true
	vBlockUntil(func() bool { return vClientsSettled(1) })
	vNote(vTraceString())

	res := vClientResults[0]
	vAssert(res != nil, "pause: every request is eventually answered")
	if res == nil {
		return
	}
	gi := vIndexOf("gate_enter", -1)
	fwd := vIndexOf("forward_begin", 0)
	if health {
		// answered by the proxy itself while paused or stopped; never held. One that found the service still running is an
		// ordinary request past the gate
		ai := vIndexOf("arrive", 0)
		pausedIdx := vIndexOf("paused", -1)
		if res.status == 503 && fwd < 0 && vIndexOf("drain_begin", -1) >= 0 && !(pausedIdx >= 0 && ai > pausedIdx) {
			vAssert(false, "pause: issuing the pause never causes a request to be refused [request past the gate when the drain began]")
			return
		}
		vAssert(res.status == 200, "pause: GET on exactly the health-check path is answered 200 throughout")
		vAssert(gi < 0 || PauseState(vTrace[gi].status) == PauseStateRunning, "pause: a health-check request is never held")
		if pausedIdx >= 0 && ai > pausedIdx && vIndexOf("resume_effective", -1) < 0 {
			vAssert(fwd < 0, "pause: a health-check request arriving while the service is paused is answered by the proxy itself")
		}
		vCover(fwd < 0, "health check answered by the proxy reachable")
		return
	}
	vAssert(gi >= 0, "pause: a non-health request consults the pause gate")
	if gi < 0 {
		return
	}
	heldWhilePaused := PauseState(vTrace[gi].status) == PauseStatePaused // the gate saw the service paused
	gateAt := vTrace[gi].at
	if PauseState(vTrace[gi].status) == PauseStateStopped {
		vAssert(res.status == 503 && fwd < 0, "pause: a request arriving after stop is answered 503 and not forwarded")
		return
	}
	if !heldWhilePaused {
		// the gate saw the service running: neither pause nor stop may turn this request into a proxy error
		if res.status == 503 {
			vAssert(false, "pause: issuing the pause never causes a request to be refused [request past the gate when the drain began]")
		}
		vCover(res.status == 200, "request before the pause served reachable")
		return
	}
	timeoutAt := gateAt + int64(maxPause)
	// the first resume / stop that took effect after the request reached the gate
	resumedIdx, stoppedIdx := -1, -1
	for k := gi + 1; k < len(vTrace); k++ {
		if vTrace[k].kind == "resume_effective" && resumedIdx < 0 {
			resumedIdx = k
		}
		if vTrace[k].kind == "stop_effective" && stoppedIdx < 0 {
			stoppedIdx = k
		}
	}
	li := vIndexOf("gate_leave", -1)
	if cont == 3 {
		// resumed and immediately paused again: a request still held must stay held unless it was released in between
		// (one that slips through is then subject to the second pause's drain, so its final status varies)
		secondPause := vLastIndexOf("pause_effective")
		if resumedIdx >= 0 && secondPause > resumedIdx && li > secondPause && fwd > secondPause {
			vAssert(false, "pause: a request is not forwarded while the service is paused [woken waiter re-reads the state after resume+pause]")
			return
		}
	}
	switch {
	case res.status == 504:
		vAssert(res.at == timeoutAt, "pause: a held request is answered 504 exactly when it has been held for max-pause")
		vAssert(fwd < 0, "pause: a timed-out request is not forwarded")
		if resumedIdx >= 0 {
			vAssert(vTrace[resumedIdx].at >= timeoutAt, "pause: 504 only if no resume came within max-pause")
		}
		if stoppedIdx >= 0 {
			vAssert(vTrace[stoppedIdx].at >= timeoutAt, "pause: 504 only if no stop came within max-pause")
		}
	case res.status == 503:
		vAssert(released == "stop" && stoppedIdx >= 0 && li > stoppedIdx, "pause: a held request is refused only by stop")
		vAssert(res.body == "PAGE[builtin/503.html]" && len(vRenders) == 1, "pause: stop answers the held request with the 503 page")
		if len(vRenders) == 1 {
			got, ok := vRenders[0].args.(struct{ Message string })
			vAssert(ok && got.Message == stopMsg, "pause: ... carrying the stop message")
		}
		vAssert(res.at <= timeoutAt, "pause: stop releases before the request's own timeout")
	case res.status == 200:
		// forwarded: only after a resume, and to the targets the service has at that moment
		vAssert(resumedIdx >= 0 && fwd > resumedIdx, "pause: a held request is forwarded only after resume")
		want := "FROM[old:80]"
		if cont == 4 {
			want = "FROM[new0:80]"
		}
		if cont == 7 {
			// (SetRolloutTargets replaces the balancer on the Service object the waiter holds: no stale copy involved)
			wantR := "FROM[rold:80]"
			if ri := vIndexOf("rollout_deployed", -1); ri >= 0 && ri < resumedIdx {
				wantR = "FROM[r1:80]"
			}
			vAssert(res.body == wantR, "pause: on resume a held request is forwarded to the rollout targets the service has at that moment")
		} else if res.body != want {
			vAssert(false, "pause: on resume a held request is forwarded to the targets the service has at that moment [waiter holds the service object replaced by a redeploy]")
		}
	default:
		vAssert(false, "pause: a held request ends as forwarded (200), stopped (503) or timed out (504)")
	}
	vCover(res.status == 504, "held request timed out reachable")
	vCover(res.status == 503, "held request stopped reachable")
	vCover(res.status == 200 && cont == 1, "held request resumed reachable")
}

// HarnessPauseRace: two of the gate commands (pause, repeated pause, resume, stop) overlap on a service that is
// running or already paused; once both have returned the gate is in one definite state, and a request arriving then
// must be treated according to it: held to its max-pause and answered 504 if paused, answered 503 with the stop
// message if stopped, forwarded if running. (The commands are not wrapped: every interleaving inside Pause, Resume
// and Stop is the scheduler's.)
func HarnessPauseRace() {
	vT2(vParam("preemptions", 1), vParam("firings", 10))
	vWatchPauseEvents()
	if vParam("policies", 2) == 2 {
		vSchedPolicy(vChoose("sched_policy", 2))
	}
	vSortMode = 0
	router := NewRouter("/state")
	// every pause command carries its own max-pause: the one in force afterwards is that of the pause that took effect last
	maxPause := vDur("max_pause")
	maxPauseOf := map[string]time.Duration{"0": vDur("max_pause_cmd0"), "1": vDur("max_pause_cmd1")}
	topts := TargetOptions{HealthCheckConfig: HealthCheckConfig{Path: "/up", Interval: 1 << 40, Timeout: 1000}}
	svc, _ := vInstallOldService(router, topts)
	root := vRootChain(router)
	if vChoose("initially_paused", 2) == 1 {
		vAssert(router.PauseService("svc", 0, maxPause) == nil, "pause race: initial pause accepted")
	}
	vProbeScripts["new0:80"] = vHealthyScript()
	vProbeScripts["new1:80"] = vHealthyScript()
	command := func(which int, tag string) {
		switch which {
		case 0:
			router.PauseService("svc", 0, maxPauseOf[tag])
		case 1:
			router.ResumeService("svc")
		case 2:
			router.StopService("svc", 0, "halt")
		case 3:
			// a redeploy does not touch the gate: whatever the other command did must survive it
			router.DeployService("svc", []string{"new" + tag + ":80"}, ServiceOptions{Hosts: []string{"h"}}, topts, 1000, 0)
		}
	}
	initial := svc.pauseController.GetState()
	target := func(which int, from PauseState) PauseState {
		switch which {
		case 0:
			return PauseStatePaused
		case 1:
			return PauseStateRunning
		case 2:
			return PauseStateStopped
		}
		return from
	}
	ncmds := vParam("commands", 4)
	c1 := vChoose("command1", ncmds)
	c2 := vChoose("command2", ncmds)
	done := 0
	go func() { command(c1, "0"); done++ }()
	go func() { command(c2, "1"); done++ }()
	vBlockUntil(func() bool { return done == 2 })
	final := router.serviceForName("svc").pauseController.GetState()
	// the two commands take effect in one of the two orders
	vAssert(final == target(c2, target(c1, initial)) || final == target(c1, target(c2, initial)), "pause race: the gate ends in the state left by one of the two orders of the commands")
	vEmit(vEvent{kind: "cmd_return"})
	at := vNow()
	vProxyPlans[0] = &vProxyPlan{service: 0}
	go func() {
		vDaemon()
		vDoRequestM(root, 0, "POST", "h", "/x")
	}()
	vBlockUntil(func() bool { return vClientsSettled(1) })
	vNote(vTraceString())
	res := vClientResults[0]
	vAssert(res != nil, "pause race: the request is eventually answered")
	if res == nil {
		return
	}
	fwd := vIndexOf("forward_begin", 0)
	switch final {
	case PauseStatePaused:
		vAssert(fwd < 0, "pause race: a request arriving while the service is paused is held, not forwarded")
		// held for the max-pause of one of the pause commands that can have been the last to take effect (the initial
		// pause's only if neither of the two commands was a pause)
		held := res.at - at
		okHold := false
		if c1 == 0 && held == int64(maxPauseOf["0"]) {
			okHold = true
		}
		if c2 == 0 && held == int64(maxPauseOf["1"]) {
			okHold = true
		}
		if c1 != 0 && c2 != 0 && held == int64(maxPause) {
			okHold = true
		}
		vAssert(res.status == 504 && okHold, "pause race: a request held for the max-pause of the latest pause is answered 504 at that instant")
	case PauseStateStopped:
		vAssert(fwd < 0 && res.status == 503 && res.body == "PAGE[builtin/503.html]" && len(vRenders) == 1, "pause race: a request to a stopped service is answered with the 503 page")
		if len(vRenders) == 1 {
			got, ok := vRenders[0].args.(struct{ Message string })
			vAssert(ok && got.Message == "halt", "pause race: ... carrying the stop message")
		}
	default:
		vAssert(fwd >= 0 && res.status == 200, "pause race: a request to a running service is forwarded")
	}
	vCover(final == PauseStatePaused, "final state paused reachable")
	vCover(final == PauseStateStopped, "final state stopped reachable")
	vCover(final == PauseStateRunning, "final state running reachable")
}
