package server

import (
	"crypto/tls"
	"net/http"
	"net/url"
	"strings"
)

// ---- C16: TLS policy ----

// vHostNoPort: the host with its port removed, as net.SplitHostPort defines host:port / [lit]:port.
func vHostNoPort(h string) string {
	want := h
	last := strings.LastIndexByte(h, ':')
	first := strings.IndexByte(h, ':')
	if last >= 0 {
		if len(h) > 0 && h[0] == '[' {
			end := strings.IndexByte(h, ']')
			if end >= 0 && end+1 == last && !vHasByte(h[1:], '[') && !vHasByte(h[end+1:], ']') {
				want = h[1:end]
			}
		} else if first == last && !vHasByte(h, '[') && !vHasByte(h, ']') {
			want = h[:last]
		}
	}
	return want
}

func HarnessTLSPolicy() {
	hostCap := vParam("hostcap", 5)
	tlsOn, redirect := vBool("tls"), vBool("redirect")
	static := vChoose("static_cert", 2) == 1
	svcHost := vString("svchost", vParam("svchostcap", 3))
	opts := ServiceOptions{Hosts: []string{svcHost}, TLSEnabled: tlsOn, TLSRedirect: redirect}
	if static {
		opts.TLSCertificatePath, opts.TLSPrivateKeyPath = "cert.pem", "key.pem"
	}
	// the (unrelated) forward-headers target option, and forwarding headers a client may send: the decision depends on
	// how the request arrived, never on what it claims
	s, err := NewService("svc", opts, TargetOptions{HealthCheckConfig: HealthCheckConfig{Path: "/up"}, ForwardHeaders: vBool("forward_headers")})
	wild := vAnd(tlsOn, vAnd(!static, vHasByte(svcHost, '*')))
	vAssert((err == ErrorAutomaticTLSDoesNotSupportWildcards) == wild, "tls: automatic TLS is refused exactly for wildcard hosts (static certificates exempt)")
	vAssert(err == nil || err == ErrorAutomaticTLSDoesNotSupportWildcards, "tls: no other construction error")
	vAssert((s.certManager != nil) == vAnd(tlsOn, err == nil), "tls: a certificate manager exists iff TLS is enabled")
	if err != nil {
		vCover(true, "wildcard refusal reachable")
		return
	}
	s.active = vBalancer("t1")
	// pause state
	switch vChoose("pause", 3) {
	case 1:
		s.pauseController.Pause(vDuration("maxpause"))
	case 2:
		s.pauseController.Stop(vString("stopmsg", 2))
	}
	overTLS := vChoose("over_tls", 2) == 1
	u := &url.URL{Path: "/p"}
	uri := vString("requri", 4)
	vRequestURI[u] = uri
	host := vString("host", hostCap)
	req := &http.Request{Method: "POST", URL: u, Host: host, Header: http.Header{}}
	if overTLS {
		req.TLS = &tls.ConnectionState{}
	}
	switch vChoose("claimed_proto", 3) {
	case 1:
		req.Header.Set("X-Forwarded-Proto", "https")
	case 2:
		req.Header.Set("X-Forwarded-Proto", "http")
		req.Header.Set("X-Forwarded-Ssl", "off")
	}
	w := vNewRecorder()
	vAssume(s.pauseController.GetState() != PauseStatePaused || s.pauseController.FailAfter >= 0 && s.pauseController.FailAfter < 1<<40)
	s.ServeHTTP(w, req)
	w.finish()

	switch {
	case tlsOn && redirect && !overTLS:
		vAssert(w.status == 301, "tls: plain request to a TLS+redirect service => 301")
		vAssert(w.hdr.Get("Location") == "https://"+vHostNoPort(host)+uri, "tls: redirect goes to the same host (port removed), path and query under https")
		vAssert(len(vForwards) == 0, "tls: a redirected request is never forwarded")
	case !tlsOn && overTLS:
		vAssert(w.status == 503, "tls: TLS request to a service without TLS => 503")
		vAssert(len(vForwards) == 0, "tls: a refused request is never forwarded")
	default:
		// falls through to the pause gate / balancer
		if s.pauseController.GetState() == PauseStateRunning {
			vAssert(len(vForwards) == 1 && w.status == 200, "tls: an admissible request is forwarded")
		} else {
			vAssert(len(vForwards) == 0, "tls: paused/stopped service forwards nothing")
		}
	}
	vCover(w.status == 301, "redirect reachable")
	vCover(w.status == 503 && !tlsOn && overTLS, "refusal reachable")
	vCover(len(vForwards) == 1, "forward reachable")
}

// HarnessGetCertificate: certificates only for names bound to a TLS-enabled service.
func HarnessGetCertificate() {
	r := NewRouter("/state")
	m, keys, tables := vArbitraryTable(vParam("keys", 2), vParam("bindings", 2), vParam("hostcap", 4), vParam("prefcap", 3))
	r.services = m
	static := &StaticCertManager{cert: &tls.Certificate{}}
	for i, bs := range tables {
		for j, b := range bs {
			if vChoose("tls"+vItoa(i)+vItoa(j), 2) == 1 {
				b.service.certManager = static
			}
		}
	}
	sni := vString("sni", vParam("hostcap", 4))
	cert, err := r.GetCertificate(&tls.ClientHelloInfo{ServerName: sni})
	want, _ := refRoute(keys, tables, sni, "/")
	if sni == "" {
		vAssert(err == ErrorNoServerName && cert == nil, "cert: empty server name fails")
	} else if want == nil || want.certManager == nil {
		vAssert(err == ErrorUnknownServerName && cert == nil, "cert: a name not bound to a TLS-enabled service gets no certificate")
	} else {
		vAssert(err == nil && cert == static.cert, "cert: the bound service's certificate manager is consulted")
	}
	vCover(err == nil, "certificate served reachable")
	vCover(err == ErrorUnknownServerName, "unknown name reachable")
}

// HarnessTLSSync: sub-path services follow the TLS settings of the root-path service of their first host.
func HarnessTLSSync() {
	vFixMapOrderType("requestServiceMap")
	vSortMode = 0
	S := vParam("services", 2)
	m := NewServiceMap()
	svcs := []*Service{}
	for i := 0; i < S; i++ {
		s := vServiceWith("s"+vItoa(i), "svc"+vItoa(i), 1, vParam("prefixes", 2), vParam("hostcap", 2), vParam("prefcap", 2))
		s.options.TLSEnabled = vBool("tls" + vItoa(i))
		s.options.TLSRedirect = vBool("redir" + vItoa(i))
		for _, o := range svcs {
			vAssume(!vConflict(s, o))
		}
		svcs = append(svcs, s)
		m.services[s.name] = s
	}
	vCallMethod(m, "updateRequestServiceMap")
	// then one more command through the public mutators: redeploy with the same bindings but new TLS flags,
	// deploy of a further service, or removal
	switch vChoose("op", 4) {
	case 1:
		i := vChoose("which", S)
		old := svcs[i]
		n := &Service{name: old.name, options: old.options, pauseController: NewPauseController()}
		n.options.TLSEnabled = vBool("new_tls")
		n.options.TLSRedirect = vBool("new_redir")
		m.Set(n)
		svcs[i] = n
	case 2:
		n := vServiceWith("n", "new", 1, vParam("prefixes", 2), vParam("hostcap", 2), vParam("prefcap", 2))
		n.options.TLSEnabled = vBool("new_tls")
		n.options.TLSRedirect = vBool("new_redir")
		for _, o := range svcs {
			vAssume(!vConflict(n, o))
		}
		m.Set(n)
		svcs = append(svcs, n)
	case 3:
		i := vChoose("which", S)
		m.Remove(svcs[i].name)
		svcs = append(append([]*Service{}, svcs[:i]...), svcs[i+1:]...)
	}
	// The flags a root-path service was deployed with are its own; sub-path services must mirror the root-path
	// service that routes (first host, "/") as the table stands now.
	changed := false
	for _, s := range svcs {
		root := false
		for _, p := range s.options.PathPrefixes {
			root = vOr(root, p == "/")
		}
		if root {
			continue
		}
		rs, _ := m.serviceFor(s.options.Hosts[0], "/")
		if rs != nil {
			vAssert(s.options.TLSEnabled == rs.options.TLSEnabled && s.options.TLSRedirect == rs.options.TLSRedirect, "sync: a sub-path service follows the root-path service of its host")
			changed = true
		} else {
			vAssert(!s.options.TLSEnabled && s.options.TLSRedirect == defaultServiceOptions.TLSRedirect, "sync: without a root-path service TLS is off")
		}
	}
	vCover(changed, "sub-path service with a root-path service reachable")
}

// HarnessSubpathTLS: the TLS policy a sub-path service actually applies to requests is the root-path service's, in
// either deploy order and after the root-path service is redeployed with other TLS settings (services built by the
// real constructor, installed through ServiceMap.Set, requests through the real Service.ServeHTTP).
func HarnessSubpathTLS() {
	vFixMapOrderType("requestServiceMap")
	vSortMode = 0
	mk := func(name string, prefix string, tlsOn, redirect bool) *Service {
		opts := ServiceOptions{Hosts: []string{"h"}, PathPrefixes: []string{prefix}, TLSEnabled: tlsOn, TLSRedirect: redirect,
			TLSCertificatePath: "cert.pem", TLSPrivateKeyPath: "key.pem"}
		s, err := NewService(name, opts, TargetOptions{HealthCheckConfig: HealthCheckConfig{Path: "/up"}})
		vAssert(err == nil, "subpath tls: service builds")
		s.active = vBalancer("t-" + name)
		return s
	}
	rootTLS, rootRedirect := vBool("root_tls"), vBool("root_redirect")
	root := mk("root", "/", rootTLS, rootRedirect)
	sub := mk("sub", "/app", vBool("sub_tls"), vBool("sub_redirect"))
	m := NewServiceMap()
	if vChoose("subpath_first", 2) == 1 {
		m.Set(sub)
		m.Set(root)
	} else {
		m.Set(root)
		m.Set(sub)
	}
	switch vChoose("then", 3) {
	case 1: // the root-path service is redeployed with other TLS settings
		rootTLS, rootRedirect = vBool("root_tls2"), vBool("root_redirect2")
		m.Set(mk("root", "/", rootTLS, rootRedirect))
	case 2: // the sub-path service is redeployed
		sub = mk("sub", "/app", vBool("sub_tls2"), vBool("sub_redirect2"))
		m.Set(sub)
	}
	overTLS := vChoose("over_tls", 2) == 1
	u := &url.URL{Path: "/app/x"}
	vRequestURI[u] = "/app/x"
	req := &http.Request{Method: "GET", URL: u, Host: "h", Header: http.Header{}}
	if overTLS {
		req.TLS = &tls.ConnectionState{}
	}
	got, _ := m.ServiceForRequest(req)
	vAssert(got == sub, "subpath tls: the request is routed to the sub-path service")
	w := vNewRecorder()
	sub.ServeHTTP(w, req)
	w.finish()
	switch {
	case rootTLS && rootRedirect && !overTLS:
		vAssert(w.status == 301 && len(vForwards) == 0, "subpath tls: plain request under a TLS+redirect root-path service => 301")
	case !rootTLS && overTLS:
		vAssert(w.status == 503 && len(vForwards) == 0, "subpath tls: TLS request under a root-path service without TLS => 503")
	default:
		vAssert(w.status == 200 && len(vForwards) == 1, "subpath tls: an admissible request is forwarded")
	}
	vCover(w.status == 301, "redirect reachable")
	vCover(w.status == 503, "refusal reachable")
	vCover(w.status == 200, "forward reachable")
}

// HarnessSubpathRedirect: the redirect of a sub-path service, through the real Router.ServeHTTP. A root-path service
// with TLS + redirect and a sub-path service under /app (with or without prefix stripping) share a host; a plain-HTTP
// request below /app is answered 301 to the same host (port removed), the same path — matched prefix included — and
// the same query, and nothing is forwarded. The request URI is the one net/url computes from the request's URL.
func HarnessSubpathRedirect() {
	vFixMapOrderType("requestServiceMap")
	vSortMode = 0
	vRealRequestURI = true
	mk := func(name string, prefix string, tlsOn, redirect, strip bool) *Service {
		opts := ServiceOptions{Hosts: []string{"h"}, PathPrefixes: []string{prefix}, TLSEnabled: tlsOn, TLSRedirect: redirect, StripPrefix: strip,
			TLSCertificatePath: "cert.pem", TLSPrivateKeyPath: "key.pem"}
		s, err := NewService(name, opts, TargetOptions{HealthCheckConfig: HealthCheckConfig{Path: "/up"}})
		vAssert(err == nil, "subpath redirect: service builds")
		s.active = vBalancer("t-" + name)
		return s
	}
	r := NewRouter("/state")
	strip := vBool("strip")
	root := mk("root", "/", true, true, false)
	sub := mk("sub", "/app", false, false, strip) // inherits TLS + redirect from the root-path service (HarnessSubpathTLS)
	if vChoose("subpath_first", 2) == 1 {
		r.services.Set(sub)
		r.services.Set(root)
	} else {
		r.services.Set(root)
		r.services.Set(sub)
	}
	// tail over the bytes {'/', 'a'} (nothing net/url would escape: the escaping itself is C13's subject), query free
	tail := vString("tail", vParam("tailcap", 2))
	vAssume(vOr(len(tail) == 0, strings.HasPrefix(tail, "/")))
	vAssume(strings.Count(tail, "/")+strings.Count(tail, "a") == len(tail))
	query := vString("query", vParam("querycap", 2))
	vAssume(!vHasByte(query, '#'))
	path := "/app" + tail
	if vChoose("to_root", 2) == 1 {
		path = "/x" + tail
	}
	u := &url.URL{Path: path, RawQuery: query}
	want := path
	if query != "" {
		want += "?" + query
	}
	req := &http.Request{Method: "GET", URL: u, Host: "h:80", Header: http.Header{}}
	w := vNewRecorder()
	r.ServeHTTP(w, req)
	w.finish()
	vAssert(w.status == 301 && len(vForwards) == 0, "subpath redirect: plain request below a TLS+redirect root-path service => 301, not forwarded")
	vAssert(w.hdr.Get("Location") == "https://h"+want, "subpath redirect: Location keeps host (port removed), full path (matched prefix included) and query")
	vCover(strip && path[1] == 'a', "stripping sub-path service reachable")
	vCover(query != "", "query reachable")
}
