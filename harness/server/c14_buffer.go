package server

import (
	"context"
	"io"
	"net/http"
	"net/url"
)

// ---- C14: buffering ----

// vBufContent returns memory content followed by disk content of a Buffer (model-side view).
func vBufContent(b *Buffer) []byte {
	out := append([]byte{}, b.memoryBuffer.Bytes()...)
	if b.diskBuffer != nil {
		out = append(out, vFiles[b.diskBuffer].data...)
	}
	return out
}

// HarnessBufferStep: one Write from an arbitrary valid pre-state (inductive step).
// Limits are arbitrary 64-bit values; lengths are small concrete numbers (case-split), bytes symbolic.
func HarnessBufferStep() {
	maxLen := vParam("maxlen", 3)
	mem := vChoose("mem", maxLen+1)
	disk := vChoose("disk", maxLen+1)
	hasSpill := disk > 0
	if !hasSpill {
		hasSpill = vChoose("spill_present", 2) == 1
	}
	n := vChoose("chunklen", maxLen+1)
	maxBytes := vInt64("maxBytes")
	maxMem := vInt64("maxMem")
	vAssume(maxBytes >= 0)
	vAssume(maxMem >= 0)

	b := &Buffer{maxBytes: maxBytes, maxMemBytes: maxMem}
	memData := vBytes("memdata", mem)
	b.memoryBuffer.Write(memData)
	b.memBytesWritten = int64(mem)
	vAssume(int64(mem) <= maxMem) // BufInv: memory within its limit
	diskData := vBytes("diskdata", disk)
	if hasSpill {
		f, _ := stubCreateTemp("", "proxy-buffer-")
		stubFileWrite(f, diskData)
		b.diskBuffer = f
		b.diskBytesWritten = int64(disk)
		vAssume(int64(mem) == maxMem) // BufInv: a spill exists only once memory is full
	}
	vAssume(vOr(maxBytes == 0, int64(mem+disk) <= maxBytes)) // BufInv: accepted bytes within the total limit
	vCreateTempFail = vBool("createtemp_fails")

	before := vBufContent(b)
	chunk := vBytes("chunk", n)
	wrote, err := b.Write(chunk)

	over := vAnd(maxBytes > 0, int64(mem+disk+n) > maxBytes)
	vAssert(vIff(err == ErrMaximumSizeExceeded, over), "buffer: overflow reported iff total would exceed max bytes")
	after := vBufContent(b)
	if err == ErrMaximumSizeExceeded {
		vAssert(wrote == 0, "buffer: overflow stores nothing (n)")
		vAssert(string(after) == string(before), "buffer: overflow stores nothing (content)")
		vAssert(b.Overflowed(), "buffer: overflow flag set")
	} else if err != nil {
		// spill creation failed
		vAssert(vCreateTempFail, "buffer: only a failing temp file makes Write fail otherwise")
		vAssert(wrote == 0 && string(after) == string(before), "buffer: failed spill creation stores nothing")
	} else {
		vAssert(wrote == n, "buffer: Write reports the whole chunk")
		vAssert(string(after) == string(before)+string(chunk), "buffer: memory||disk content is extended by exactly the chunk")
		vAssert(b.memBytesWritten <= maxMem, "buffer: at most maxMem bytes in memory")
		vAssert(int64(b.memoryBuffer.Len()) == b.memBytesWritten, "buffer: memory counter == memory content")
		vAssert(b.memBytesWritten+b.diskBytesWritten == int64(mem+disk+n), "buffer: counters account for every byte")
		if b.diskBuffer != nil {
			vAssert(int64(len(vFiles[b.diskBuffer].data)) == b.diskBytesWritten, "buffer: disk counter == disk content")
			vAssert(b.memBytesWritten == maxMem, "buffer: spill only once memory is full (BufInv preserved)")
		} else {
			vAssert(b.diskBytesWritten == 0, "buffer: no spill => nothing on disk")
		}
		vAssert(!b.Overflowed(), "buffer: no overflow flag on success")
	}
	vCover(err == nil && b.diskBuffer != nil && !hasSpill, "spill created by this write reachable")
	vCover(err == ErrMaximumSizeExceeded, "overflow reachable")
	vCover(err == nil && n > 0 && b.diskBuffer == nil, "pure memory write reachable")
}

// vChunkReader delivers a body as an arbitrary sequence of chunks.
type vChunkReader struct {
	chunks [][]byte
	i      int
	endErr error
	closed int
	onRead func(i int) // called at the start of every Read with the index of the next chunk
}

func (r *vChunkReader) Read(p []byte) (int, error) {
	if r.onRead != nil {
		r.onRead(r.i)
	}
	if r.i >= len(r.chunks) {
		if r.endErr != nil {
			return 0, r.endErr
		}
		return 0, io.EOF
	}
	c := r.chunks[r.i]
	n := copy(p, c)
	if n < len(c) {
		r.chunks[r.i] = c[n:]
	} else {
		r.i++
	}
	return n, nil
}

func (r *vChunkReader) Close() error { r.closed++; return nil }

type vSink struct{ data []byte }

func (s *vSink) Write(p []byte) (int, error) { s.data = append(s.data, p...); return len(p), nil }

// HarnessBufferE2E: from empty, k chunks in, then everything out again (Send or Read), then Close.
func HarnessBufferE2E() {
	k := vParam("chunks", 2)
	maxLen := vParam("maxlen", 2)
	maxBytes := vInt64("maxBytes")
	maxMem := vInt64("maxMem")
	vAssume(maxBytes >= 0)
	vAssume(maxMem >= 0)
	b := NewBufferedWriteCloser(maxBytes, maxMem)
	all := []byte{}
	total := 0
	failed := false
	for i := 0; i < k; i++ {
		n := vChoose("len"+vItoa(i), maxLen+1)
		c := vBytes("chunk"+vItoa(i), n)
		w, err := b.Write(c)
		if err != nil {
			failed = true
			vAssert(err == ErrMaximumSizeExceeded, "e2e: the only write error without disk faults is overflow")
			vAssert(vAnd(maxBytes > 0, int64(total+n) > maxBytes), "e2e: overflow only when the total limit is exceeded")
			vAssert(w == 0, "e2e: overflow write stores nothing")
			break
		}
		vAssert(vOr(maxBytes == 0, int64(total+n) <= maxBytes), "e2e: accepted only within the total limit")
		all = append(all, c...)
		total += n
		vAssert(b.memBytesWritten <= maxMem, "e2e: memory use bounded by buffer-memory")
	}
	if !failed {
		useSend := vChoose("use_send", 2) == 1
		out := []byte{}
		if useSend {
			s := &vSink{}
			vAssert(b.Send(s) == nil, "e2e: Send succeeds")
			out = s.data
		} else {
			p := make([]byte, 1+vChoose("readbuf", 3))
			for j := 0; j < 2*total+4; j++ {
				n, err := b.Read(p)
				out = append(out, p[:n]...)
				if err == io.EOF {
					break
				}
				vAssert(err == nil, "e2e: Read error")
			}
		}
		vAssert(string(out) == string(all), "e2e: bytes out == bytes in")
	}
	spilled := b.diskBuffer != nil
	b.Close()
	vAssert(vLiveTempFiles() == 0, "e2e: no spill file left after Close")
	b.Close()
	for _, vf := range vFileList {
		vAssert(vf.removes == 1, "e2e: spill removed exactly once")
		vAssert(vf.closed, "e2e: spill closed")
	}
	vCover(spilled && !failed, "spilled and read back reachable")
	vCover(failed, "overflow reachable")
}

// ---- middleware level ----

// the value ReverseProxy aborts a handler with when the target dies mid-body (the real net/http sentinel)
var errVAbort = http.ErrAbortHandler

// vScriptedHandler plays the role of the next handler (the reverse proxy): an arbitrary script of
// header / informational / status / write / flush / hijack / abort steps.
type vScriptedHandler struct {
	tag         string
	contentType string
	early       int // 0 = no informational response, else the 1xx code
	explicit    bool
	status      int
	chunks      [][]byte
	flush       bool
	hijack      bool
	abort       bool
	readBody    bool
	invoked     int
	gotBody     []byte
	bodyErr     error
	client      *vRecorder
	// observations
	clientWritesAtReturn int
	clientBodyAfterWrite [][]byte
	bodyRef              io.ReadCloser
}

func (h *vScriptedHandler) ServeHTTP(w http.ResponseWriter, r *http.Request) {
	h.invoked++
	if h.readBody && r.Body != nil {
		h.bodyRef = r.Body
		buf := make([]byte, 3)
		for i := 0; i < 64; i++ {
			n, err := r.Body.Read(buf)
			h.gotBody = append(h.gotBody, buf[:n]...)
			if err != nil {
				if err != io.EOF {
					h.bodyErr = err
				}
				break
			}
		}
		r.Body.Close() // ReverseProxy's contract: the outgoing body is closed
	}
	if h.hijack {
		if hj, ok := w.(http.Hijacker); ok {
			hj.Hijack()
		}
		return
	}
	if h.contentType != "" {
		w.Header().Set("Content-Type", h.contentType)
	}
	if h.early != 0 {
		w.WriteHeader(h.early)
	}
	if h.explicit {
		w.WriteHeader(h.status)
	}
	for _, c := range h.chunks {
		w.Write(c)
		if h.client != nil {
			h.clientBodyAfterWrite = append(h.clientBodyAfterWrite, append([]byte{}, h.client.body...))
		}
		if h.flush {
			if f, ok := w.(http.Flusher); ok {
				f.Flush()
			}
		}
	}
	if h.client != nil {
		h.clientWritesAtReturn = h.client.writes
	}
	if h.abort {
		panic(errVAbort)
	}
}

func vCallRecovering(f func()) (panicked bool) {
	defer func() {
		if r := recover(); r != nil {
			panicked = true
		}
	}()
	f()
	return false
}

func HarnessResponseBuffer() {
	maxLen := vParam("maxlen", 2)
	nChunks := vChoose("nchunks", vParam("chunks", 2)+1)
	maxBytes := vInt64("maxBytes")
	maxMem := vInt64("maxMem")
	vAssume(maxBytes >= 0)
	vAssume(maxMem >= 0)
	client := vNewRecorder()
	h := &vScriptedHandler{client: client}
	switch vChoose("ctype", 4) {
	case 1:
		h.contentType = "text/event-stream"
	case 2:
		h.contentType = "text/event-stream; charset=utf-8"
	case 3:
		h.contentType = "text/html"
	}
	sse := h.contentType == "text/event-stream" || h.contentType == "text/event-stream; charset=utf-8"
	// ReverseProxy's contract: a header block (WriteHeader) precedes anything else it writes; the only
	// script without WriteHeader is the handler that returns without writing at all.
	h.explicit = vChoose("explicit", 2) == 1
	h.status = 200
	if h.explicit {
		h.status = vIntRange("status", 200, 599)
		if vChoose("early", 2) == 1 {
			h.early = 103
		}
	} else {
		nChunks = 0
	}
	h.flush = vChoose("flush", 2) == 1
	h.hijack = vChoose("hijack", 2) == 1
	h.abort = vChoose("abort", 2) == 1
	total := 0
	all := []byte{}
	for i := 0; i < nChunks; i++ {
		n := vChoose("len"+vItoa(i), maxLen+1)
		c := vBytes("chunk"+vItoa(i), n)
		h.chunks = append(h.chunks, c)
		all = append(all, c...)
		total += n
	}
	mw := WithResponseBufferMiddleware(maxMem, maxBytes, h)
	req := &http.Request{Method: "GET", URL: &url.URL{Path: "/x"}, Header: http.Header{}}
	var w http.ResponseWriter = client
	if h.hijack {
		w = vHijackRecorder{client}
	}
	panicked := vCallRecovering(func() { mw.ServeHTTP(w, req) })
	if !panicked {
		client.finish() // net/http sends an implicit 200 when the handler returns without writing
	}

	vAssert(h.invoked == 1, "respbuf: next handler invoked exactly once")
	vAssert(vLiveTempFiles() == 0, "respbuf: every spill file is gone when the request ends")
	vAssert(panicked == (h.abort && !h.hijack), "respbuf: panics only propagate the handler's abort")
	over := vAnd(maxBytes > 0, int64(total) > maxBytes)
	switch {
	case h.hijack:
		vAssert(!client.wroteHeader && len(client.body) == 0, "respbuf: upgraded connection: nothing is sent by the middleware")
	case !h.explicit:
		vAssert(vOr(h.abort, client.status == 200) && len(client.body) == 0, "respbuf: empty response is an empty 200")
	case sse && h.explicit: // (ReverseProxy always writes the header block before the body)
		// pass-through from the first header on
		vAssert(client.status == h.status, "respbuf: event stream keeps the target's status")
		vAssert(string(client.body) == string(all), "respbuf: event stream body passes through")
		for i := range h.clientBodyAfterWrite {
			want := []byte{}
			for j := 0; j <= i; j++ {
				want = append(want, h.chunks[j]...)
			}
			vAssert(string(h.clientBodyAfterWrite[i]) == string(want), "respbuf: event stream chunks are delivered as they are written")
		}
		if h.flush && nChunks > 0 {
			vAssert(client.flushes > 0, "respbuf: event stream flushes pass through")
		}
	case h.abort:
		// handler aborted: nothing complete may be presented
		vAssert(len(client.body) == 0 && !client.wroteHeader, "respbuf: aborted response is not delivered as complete")
	default:
		vAssert(h.clientWritesAtReturn == 0, "respbuf: nothing reaches the client before the response is complete")
		if over {
			vAssert(client.status == 500, "respbuf: oversized response => 500")
			vAssert(string(client.body) == "Internal Server Error\n", "respbuf: oversized response delivers none of the target's body")
		} else {
			vAssert(string(client.body) == string(all), "respbuf: client receives the exact body")
			wantStatus := 200
			if h.explicit {
				wantStatus = h.status
			}
			if h.explicit || nChunks > 0 {
				vAssert(client.status == wantStatus, "respbuf: client receives the target's final status")
			}
		}
	}
	vCover(over && !h.hijack && !sse && !h.abort, "oversized response reachable")
	vCover(sse && nChunks > 0, "event stream reachable")
	vCover(!sse && !h.hijack && !over && nChunks > 0 && h.early != 0 && h.explicit, "informational + final status reachable")
}

func HarnessRequestBuffer() {
	maxLen := vParam("maxlen", 2)
	nChunks := vChoose("nchunks", vParam("chunks", 2)+1)
	maxBytes := vInt64("maxBytes")
	maxMem := vInt64("maxMem")
	vAssume(maxBytes >= 0)
	vAssume(maxMem >= 0)
	body := &vChunkReader{}
	all := []byte{}
	for i := 0; i < nChunks; i++ {
		n := vChoose("len"+vItoa(i), maxLen+1)
		c := vBytes("chunk"+vItoa(i), n)
		body.chunks = append(body.chunks, append([]byte{}, c...))
		all = append(all, c...)
	}
	readFails := vChoose("read_fails", 2) == 1
	if readFails {
		body.endErr = errVDisk
	}
	client := vNewRecorder()
	h := &vScriptedHandler{readBody: true, explicit: true, status: 204}
	mw := WithRequestBufferMiddleware(maxMem, maxBytes, h)
	req := &http.Request{Method: "POST", URL: &url.URL{Path: "/x"}, Header: http.Header{}, Body: body}
	// the request may be cancelled while its body is still being buffered — by a drain of the target (cause
	// ErrorDraining) or by the client going away — at any chunk boundary, the end of the body included
	cancelled := false
	if cancelMode := vChoose("cancel_during_upload", 3); cancelMode > 0 {
		ctx, cancel := context.WithCancelCause(context.Background())
		req = req.WithContext(ctx)
		at := vChoose("cancel_at", nChunks+1)
		body.onRead = func(i int) {
			if i == at && !cancelled {
				cancelled = true
				if cancelMode == 1 {
					cancel(ErrorDraining)
				} else {
					cancel(nil)
				}
			}
		}
	}
	mw.ServeHTTP(client, req)

	over := vAnd(maxBytes > 0, int64(len(all)) > maxBytes)
	if cancelled && !over && !readFails {
		// whether a cancelled request still reaches the next handler is not C14's business; that nothing it spilled
		// stays behind is
		vAssert(vLiveTempFiles() == 0, "reqbuf: every spill file is gone when a request cancelled during its upload ends")
		vCover(len(vFileList) > 0, "cancelled spilled request reachable")
		return
	}
	if over {
		vAssert(h.invoked == 0, "reqbuf: oversized body => target not contacted")
		vAssert(client.status == 413, "reqbuf: oversized body => 413")
	} else if readFails {
		vAssert(h.invoked == 0, "reqbuf: failed body read => target not contacted")
		vAssert(client.status == 500, "reqbuf: failed body read => 500")
	} else {
		vAssert(h.invoked == 1, "reqbuf: target contacted exactly once")
		vAssert(body.i == len(body.chunks), "reqbuf: target contacted only after the whole body has arrived")
		vAssert(string(h.gotBody) == string(all), "reqbuf: target sees exactly the client's bytes")
		vAssert(h.bodyErr == nil, "reqbuf: buffered body reads cleanly")
		vAssert(client.status == 204, "reqbuf: handler's response passes")
		_, isBuf := h.bodyRef.(*Buffer)
		vAssert(isBuf, "reqbuf: the body handed on is the Buffer whose Close removes the spill")
	}
	// (relative to the contract that the next handler closes the body it was given)
	vAssert(vLiveTempFiles() == 0, "reqbuf: every spill file is gone when the request ends")
	vCover(over, "oversized request reachable")
	vCover(!over && !readFails && len(vFileList) > 0, "spilled request reachable")
}
