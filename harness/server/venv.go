package server

import (
	"context"
	"errors"
	"io"
	"net/http"
	"net/http/httputil"
	"net/url"
	"time"
)

// ---- T2 environment: health probes, the reverse proxy, and the event trace ----

type vEvent struct {
	obj    any
	kind   string
	target string
	req    int
	status int
	at     int64
	ok     bool
	note   string
}

var vTrace []vEvent

func vEmit(e vEvent) {
	e.at = vNow()
	vTrace = append(vTrace, e)
}

// vArriveAfter blocks the calling client goroutine until k events have been emitted (or the command under test has
// returned): client arrivals are placed relative to the steps of the command rather than by a free-running timer.
var vCmdReturned bool

// directed-schedule switches (used by the small harnesses that exhibit the known findings deterministically)
var vHoldAfterLookup, vHoldAfterGate, vRelease bool
var vHeld int

func vArriveAfter(k int) {
	vBlockUntil(func() bool { return len(vTrace) >= k || vCmdReturned })
}

// --- health probes ---

const (
	vProbeRefused = iota
	vProbeStatus
	vProbeSlow // never answers: ends only when its context ends
)

type vProbeOutcome struct {
	kind    int
	refused bool // symbolic alternative to kind: connection refused instead of a status
	status  int
	latency time.Duration
}

type vProbeScript struct {
	outcomes  []vProbeOutcome
	next      int
	parkAfter bool // after the script: park the probe loop (bounded exploration) instead of repeating the last outcome
}

var vProbeParked int

var vProbeScripts = map[string]*vProbeScript{}
var vProbeCount = map[string]int{}
var errVRefused = errors.New("connection refused (model)")

type vEmptyBody struct{}

func (vEmptyBody) Read(p []byte) (int, error) { return 0, io.EOF }
func (vEmptyBody) Close() error               { return nil }

//verif:stub net/http.NewRequestWithContext
func stubNewRequestWithContext(ctx context.Context, method, urlStr string, body io.Reader) (*http.Request, error) {
	r := &http.Request{Method: method, URL: &url.URL{Scheme: "http", Host: urlStr}, Header: http.Header{}, Host: urlStr}
	return r.WithContext(ctx), nil
}

//verif:stub (*net/url.URL).String
func stubURLString(u *url.URL) string { return u.Host }

//verif:stub (*net/url.URL).JoinPath
func stubURLJoinPath(u *url.URL, elem ...string) *url.URL {
	c := *u
	return &c
}

// stubClientDo is the health probe's environment: per target a script of outcomes with symbolic latencies;
// it honours the request context (cancellation / the probe timeout) as net/http does.
//
//verif:stub (*net/http.Client).Do
func stubClientDo(c *http.Client, req *http.Request) (*http.Response, error) {
	host := req.URL.Host
	ctx := req.Context()
	sc := vProbeScripts[host]
	idx := vProbeCount[host]
	vProbeCount[host] = idx + 1
	if sc != nil && sc.parkAfter && idx >= len(sc.outcomes) {
		vProbeParked++
		vDaemon()
		select {}
	}
	if ctx.Err() != nil {
		// net/http notices the dead context before anything is sent: no probe leaves the proxy
		return nil, &url.Error{Op: "Get", URL: host, Err: ctx.Err()}
	}
	o := vProbeOutcome{kind: vProbeRefused}
	if sc != nil && len(sc.outcomes) > 0 {
		if idx < len(sc.outcomes) {
			o = sc.outcomes[idx]
		} else if sc.parkAfter {
			// exploration bound: only the scripted probes are explored; the probe loop is parked afterwards
			vProbeParked++
			vDaemon()
			select {}
		} else {
			o = sc.outcomes[len(sc.outcomes)-1]
		}
	}
	vEmit(vEvent{kind: "probe_begin", target: host, req: idx})
	if o.kind == vProbeSlow {
		<-ctx.Done()
		vEmit(vEvent{kind: "probe_end", target: host, req: idx, ok: false, note: "ctx"})
		return nil, &url.Error{Op: "Get", URL: host, Err: ctx.Err()}
	}
	select {
	case <-time.After(o.latency):
	case <-ctx.Done():
		vEmit(vEvent{kind: "probe_end", target: host, req: idx, ok: false, note: "ctx"})
		return nil, &url.Error{Op: "Get", URL: host, Err: ctx.Err()}
	}
	if o.kind == vProbeRefused || o.refused {
		vEmit(vEvent{kind: "probe_end", target: host, req: idx, ok: false})
		return nil, &url.Error{Op: "Get", URL: host, Err: errVRefused}
	}
	vEmit(vEvent{kind: "probe_end", target: host, req: idx, ok: o.status >= 200 && o.status <= 299, status: o.status})
	return &http.Response{StatusCode: o.status, Body: vEmptyBody{}}, nil
}

// --- the reverse proxy ---

type vProxyPlan struct {
	service       time.Duration // how long the target takes to answer
	never         bool          // the target never answers
	hijack        bool          // upgraded connection (hijacked at once)
	hijackLate    bool          // the upgrade completes only after `service`
	upgradeHeader bool          // the request merely carries an Upgrade header (no upgrade happens)
	cookie        bool          // the request carries the rollout cookie (value "x")
	hijackEnds    bool          // with hijack: the peer closes the upgraded connection after `service`
	eventStream   bool          // the request asks for an event stream (Accept: text/event-stream); otherwise ordinary
}

var vProxyPlans = map[int]*vProxyPlan{} // by request number
var vOpenCtx = map[int]context.Context{}
var vOpenEnded = map[int]bool{} // requests currently parked at a target that never answers / an upgraded connection

// vClientsSettled: every client has its response or is parked at a never-answering target / upgraded connection.
func vClientsSettled(n int) bool {
	for c := 0; c < n; c++ {
		if r := vClientResults[c]; r == nil || !r.done {
			// still parked (and not cancelled meanwhile) counts as settled
			if !(vOpenEnded[c] && vOpenCtx[c].Err() == nil) {
				return false
			}
		}
	}
	return true
}

var vReqNumber = map[*http.Request]int{}
var vReqKey = contextKey("verif-request-number")

func vRequestNumber(r *http.Request) int {
	if n, ok := r.Context().Value(vReqKey).(int); ok {
		return n
	}
	return -1
}

// stubReverseProxyServeHTTP stands for httputil.ReverseProxy: it builds the outgoing request the way ReverseProxy
// does for Rewrite, runs the real Rewrite, "contacts" the target named by the rewritten URL, takes the planned
// service time while observing the request context, and answers with the target's token - or hands the context's
// cause to the real ErrorHandler when the request is cancelled first.
//
//verif:stub (*net/http/httputil.ReverseProxy).ServeHTTP
func stubReverseProxyServeHTTP(p *httputil.ReverseProxy, w http.ResponseWriter, r *http.Request) {
	n := vRequestNumber(r)
	outURL := *r.URL
	out := &http.Request{Method: r.Method, URL: &outURL, Host: r.Host, Header: http.Header{}}
	p.Rewrite(&httputil.ProxyRequest{In: r, Out: out})
	target := out.URL.Host
	vEmit(vEvent{kind: "forward_begin", target: target, req: n})
	plan := vProxyPlans[n]
	if plan == nil {
		plan = &vProxyPlan{}
	}
	ctx := r.Context()
	if plan.hijack {
		if hj, ok := w.(http.Hijacker); ok {
			hj.Hijack()
		}
		if plan.hijackEnds {
			select {
			case <-time.After(plan.service):
				vEmit(vEvent{kind: "forward_end", target: target, req: n, note: "peer-closed"})
				return
			case <-ctx.Done():
				vEmit(vEvent{kind: "forward_end", target: target, req: n, note: "hijack-closed"})
				return
			}
		}
		vOpenEnded[n] = true
		vOpenCtx[n] = ctx
		<-ctx.Done()
		vOpenEnded[n] = false
		vEmit(vEvent{kind: "forward_end", target: target, req: n, note: "hijack-closed"})
		return
	}
	if plan.hijackLate {
		select {
		case <-time.After(plan.service):
			if hj, ok := w.(http.Hijacker); ok {
				hj.Hijack()
			}
			vEmit(vEvent{kind: "upgraded", target: target, req: n})
			vOpenEnded[n] = true
			vOpenCtx[n] = ctx
			<-ctx.Done()
			vOpenEnded[n] = false
			vEmit(vEvent{kind: "forward_end", target: target, req: n, note: "hijack-closed"})
			return
		case <-ctx.Done():
		}
	} else if plan.never {
		vOpenEnded[n] = true
		vOpenCtx[n] = ctx
		<-ctx.Done()
		vOpenEnded[n] = false
	} else {
		select {
		case <-time.After(plan.service):
			vEmit(vEvent{kind: "forward_end", target: target, req: n, ok: true})
			w.WriteHeader(200)
			w.Write([]byte("FROM[" + target + "]"))
			return
		case <-ctx.Done():
		}
	}
	vEmit(vEvent{kind: "forward_end", target: target, req: n, note: "cancelled"})
	p.ErrorHandler(w, r, context.Cause(ctx))
}

// vClient issues one request through handler h and records what the client got.
type vClientResult struct {
	done   bool
	status int
	body   string
	at     int64
}

var vClientResults = map[int]*vClientResult{}

func vDoRequest(h http.Handler, n int, host, path string) {
	req := &http.Request{Method: "GET", URL: &url.URL{Path: path}, Header: http.Header{}, Host: host, RemoteAddr: "1.2.3.4:5"}
	req = req.WithContext(context.WithValue(context.Background(), vReqKey, n))
	w := vNewRecorder()
	var rw http.ResponseWriter = w
	if p := vProxyPlans[n]; p != nil && (p.hijack || p.hijackLate) {
		rw = vHijackRecorder{w}
	}
	if p := vProxyPlans[n]; p != nil && p.upgradeHeader {
		req.Header["Upgrade"] = []string{"h2c"}
		req.Header["Connection"] = []string{"Upgrade"}
	}
	if p := vProxyPlans[n]; p != nil && p.eventStream {
		req.Header["Accept"] = []string{"text/event-stream"}
	}
	if p := vProxyPlans[n]; p != nil && p.cookie {
		req.Header["Cookie"] = []string{RolloutCookieName + "=x"}
	}
	vEmit(vEvent{kind: "arrive", req: n})
	h.ServeHTTP(rw, req)
	w.finish()
	res := &vClientResult{done: true, status: w.status, body: string(w.body), at: vNow()}
	vClientResults[n] = res
	vEmit(vEvent{kind: "respond", req: n, status: w.status, note: string(w.body)})
}

// vInstall: Router.installService through vCallMethod; true when it reported no error.
func vInstall(r *Router, s *Service) bool { return vCallMethod(r, "installService", s) == nil }

// wrappers that put the deploy's internal steps on the trace (a stub may call the function it replaces)

//verif:stub (*github.com/basecamp/kamal-proxy/internal/server.Router).installService harness=HarnessDeployGate,HarnessRolloutDeployGate,HarnessRedeployTraffic,HarnessRedeployTrafficDirected,HarnessDrainQuiescent,HarnessDrainQuiescentDirected,HarnessPauseHold,HarnessPauseHoldDirected,HarnessNoProbesAfter,HarnessFailAtomic,HarnessCmdMix
func stubInstallServiceTraced(r *Router, s *Service) error {
	err, _ := vCallMethod(r, "installService", s).(error)
	vEmit(vEvent{kind: "swap", ok: err == nil})
	return err
}

// vTraceString renders the event trace (for counterexample reports).
func vTraceString() string {
	s := ""
	for _, e := range vTrace {
		s += e.kind
		if e.target != "" {
			s += "(" + e.target + ")"
		}
		if e.kind == "arrive" || e.kind == "respond" || e.kind == "forward_begin" || e.kind == "forward_end" {
			s += "#" + vItoa(e.req)
		}
		if e.kind == "respond" && vIsConcrete(e.status) {
			s += "=" + vItoa(e.status)
		}
		if e.note != "" && e.kind != "respond" {
			s += "[" + e.note + "]"
		}
		s += " "
	}
	return s
}

//verif:stub (*github.com/basecamp/kamal-proxy/internal/server.Target).Drain harness=HarnessDrainQuiescent,HarnessDrainQuiescentDirected,HarnessPauseHold,HarnessPauseHoldDirected,HarnessRedeployTraffic,HarnessRedeployTrafficDirected,HarnessCmdMix
func stubTargetDrainTraced(t *Target, timeout time.Duration) {
	vEmit(vEvent{kind: "drain_begin", target: t.Target()})
	t.Drain(timeout)
	vEmit(vEvent{kind: "drain_end", target: t.Target()})
}

//verif:stub (*github.com/basecamp/kamal-proxy/internal/server.Router).serviceForRequest harness=HarnessDrainQuiescent,HarnessDrainQuiescentDirected,HarnessPauseHold,HarnessPauseHoldDirected,HarnessRedeployTraffic,HarnessRedeployTrafficDirected,HarnessCmdMix
func stubServiceForRequestTraced(r *Router, req *http.Request) (*Service, string) {
	s, p := r.serviceForRequest(req)
	vEmit(vEvent{kind: "lookup", req: vRequestNumber(req), obj: s})
	if vHoldAfterLookup {
		// directed schedule: this request is descheduled right after it obtained its service, until released
		vHeld++
		vBlockUntil(func() bool { return vRelease })
	}
	return s, p
}

//verif:stub (*github.com/basecamp/kamal-proxy/internal/server.PauseController).Wait harness=HarnessDrainQuiescent,HarnessDrainQuiescentDirected,HarnessPauseHold,HarnessPauseHoldDirected,HarnessCmdMix
func stubPauseWaitTraced(p *PauseController) (PauseWaitAction, string) {
	vAtGate++
	a, m := p.Wait()
	vAtGate--
	vEmit(vEvent{kind: "gate_leave", status: int(a)})
	if vHoldAfterGate {
		vHeld++
		vBlockUntil(func() bool { return vRelease })
	}
	return a, m
}

var vAtGate int

// the state the gate actually observed (emitted atomically with the read)
//
//verif:stub (*github.com/basecamp/kamal-proxy/internal/server.PauseController).getWaitState harness=HarnessDrainQuiescent,HarnessDrainQuiescentDirected,HarnessPauseHold,HarnessPauseHoldDirected,HarnessCmdMix
func stubGetWaitStateTraced(p *PauseController) (PauseState, string, chan bool, <-chan time.Time) {
	vAtomicBegin()
	st, msg, ch, fail := p.getWaitState()
	vEmit(vEvent{kind: "gate_enter", status: int(st)})
	vAtomicEnd()
	return st, msg, ch, fail
}

// the instants at which pause / stop / resume take effect: observed at the store to PauseController.State itself, so
// that Pause, Resume and Stop run unwrapped and every interleaving inside them stays visible to the scheduler
func vWatchPauseEvents() {
	vWatchStore("server.PauseController.State", func(obj any) {
		switch obj.(*PauseController).State {
		case PauseStatePaused:
			vEmit(vEvent{kind: "pause_effective"})
		case PauseStateStopped:
			vEmit(vEvent{kind: "stop_effective"})
		default:
			vEmit(vEvent{kind: "resume_effective"})
		}
	})
}

// the instants at which a target enters and leaves the draining state, observed at the stores to Target.state (the
// drain_begin / drain_end events of the Drain wrapper may be several scheduling points away from them)
var vWasDraining = map[*Target]bool{}

func vWatchDrainState() {
	vWatchStore("server.Target.state", func(obj any) {
		t := obj.(*Target)
		now := t.state == TargetStateDraining
		if now && !vWasDraining[t] {
			vEmit(vEvent{kind: "draining_set", target: t.Target()})
		}
		if !now && vWasDraining[t] {
			vEmit(vEvent{kind: "draining_cleared", target: t.Target()})
		}
		vWasDraining[t] = now
	})
}

func vIndexOf(kind string, req int) int {
	for i, e := range vTrace {
		if e.kind == kind && (req < 0 || e.req == req) {
			return i
		}
	}
	return -1
}

func vLastIndexOf(kind string) int {
	idx := -1
	for i, e := range vTrace {
		if e.kind == kind {
			idx = i
		}
	}
	return idx
}

// vLastGateLeave: index of the last gate_leave event before trace index i (single-client harnesses), -1 if none.
func vLastGateLeave(i int) int {
	idx := -1
	for k := 0; k < i && k < len(vTrace); k++ {
		if vTrace[k].kind == "gate_leave" {
			idx = k
		}
	}
	return idx
}

// vGateEnterBefore: index of the gate_enter event matching the gate_leave at index gi.
func vGateEnterBefore(gi int) int {
	for k := gi - 1; k >= 0; k-- {
		if vTrace[k].kind == "gate_enter" {
			return k
		}
	}
	return -1
}

// directed schedule for the "request past the gate meets a draining target" history: the drain is suspended right
// after the target entered the draining state, until the held client has been answered
var vSuspendDrain bool

//verif:stub (*github.com/basecamp/kamal-proxy/internal/server.Target).pendingRequestsToCancel harness=HarnessPauseHoldDirected,HarnessRedeployTrafficDirected
func stubPendingRequestsSuspended(t *Target) inflightMap {
	if vSuspendDrain {
		vRelease = true
		vBlockUntil(func() bool { return vClientResults[0] != nil })
	}
	return t.pendingRequestsToCancel()
}
