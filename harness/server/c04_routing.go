package server

import (
	"net/http"
	"net/url"
	"strings"
)

// ---- C04: routing ----

// vValidPrefix: the shape NormalizePathPrefixes produces ("/" + trimmed of slashes).
func vValidPrefix(p string) bool {
	// written with string models only, so that it builds one formula and never forks
	return vAnd(strings.HasPrefix(p, "/"), vOr(len(p) == 1, vAnd(!strings.HasSuffix(p, "/"), !strings.HasPrefix(p, "//"))))
}

// vArbitraryTable builds a ServiceMap whose requestServiceMap is an arbitrary table satisfying the
// representation invariant Inv (established by updateRequestServiceMap, see HarnessRouteBuild):
// K distinct host keys, each with 1..B bindings with valid, pairwise distinct prefixes sorted by
// non-increasing length.
func vArbitraryTable(K, B, hostCap, prefCap int) (*ServiceMap, []string, [][]*pathBinding) {
	m := NewServiceMap()
	keys := []string{}
	tables := [][]*pathBinding{}
	for i := 0; i < K; i++ {
		key := vString("key"+string(rune('0'+i)), hostCap)
		for _, k := range keys {
			vAssume(k != key)
		}
		nb := 1 + vChoose("nb"+string(rune('0'+i)), B)
		bs := []*pathBinding{}
		for j := 0; j < nb; j++ {
			p := vString("p"+string(rune('0'+i))+string(rune('0'+j)), prefCap)
			vAssume(vValidPrefix(p))
			for _, o := range bs {
				vAssume(o.pathPrefix != p)
			}
			if j > 0 {
				vAssume(len(bs[j-1].pathPrefix) >= len(p))
			}
			bs = append(bs, &pathBinding{pathPrefix: p, service: &Service{name: "s" + string(rune('0'+i)) + string(rune('0'+j))}})
		}
		keys = append(keys, key)
		tables = append(tables, bs)
		m.requestServiceMap[key] = bs
	}
	return m, keys, tables
}

// refRoute is the reference: the routing rule of C04 written directly from the statement.
func refRoute(keys []string, tables [][]*pathBinding, host, path string) (*Service, string) {
	cand := -1
	for i, k := range keys {
		if k == host {
			cand = i
			break
		}
	}
	if cand < 0 {
		dot := strings.IndexByte(host, '.')
		if dot > 0 {
			wk := "*" + host[dot:]
			for i, k := range keys {
				if k == wk {
					cand = i
					break
				}
			}
		}
	}
	if cand < 0 {
		for i, k := range keys {
			if k == "" {
				cand = i
				break
			}
		}
	}
	if cand < 0 {
		return nil, ""
	}
	var best *pathBinding
	for _, b := range tables[cand] {
		p := b.pathPrefix
		if vOr(p == "/", vOr(path == p, strings.HasPrefix(path, p+"/"))) {
			if best == nil || len(p) > len(best.pathPrefix) {
				best = b
			}
		}
	}
	if best == nil {
		return nil, ""
	}
	return best.service, best.pathPrefix
}

func HarnessRouteLookup() {
	K, B := vParam("keys", 2), vParam("bindings", 2)
	m, keys, tables := vArbitraryTable(K, B, vParam("hostcap", 6), vParam("prefcap", 4))
	host := vString("host", vParam("hostcap", 6))
	path := vString("path", vParam("pathcap", 6))
	vAssume(vOr(len(path) == 0, strings.HasPrefix(path, "/"))) // origin-form

	got, gotPrefix := m.serviceFor(host, path)
	want, wantPrefix := refRoute(keys, tables, host, path)

	vAssert(got == want, "route: service == reference")
	vAssert(gotPrefix == wantPrefix, "route: matched prefix == reference")
	vCover(got != nil && gotPrefix != "/", "non-root match reachable")
	vCover(got == nil, "404 reachable")
	vCover(got != nil && len(host) > 0 && len(keys) > 0 && keys[0] != host, "non-exact host match reachable")
}

// ---- host header -> lookup key (ServiceForRequest with the real net.SplitHostPort) ----

var vSeenHost, vSeenPath string
var vSeenCalls int

//verif:stub (*github.com/basecamp/kamal-proxy/internal/server.ServiceMap).serviceFor harness=HarnessRoutePort
func stubServiceForRecord(m *ServiceMap, host, path string) (*Service, string) {
	vSeenHost, vSeenPath = host, path
	vSeenCalls++
	return nil, ""
}

func vHasByte(s string, c byte) bool { return strings.IndexByte(s, c) >= 0 }

func HarnessRoutePort() {
	h := vString("hosthdr", vParam("hostcap", 8))
	path := vString("path", 3)
	m := NewServiceMap()
	req := &http.Request{Host: h, URL: &url.URL{Path: path}}
	m.ServiceForRequest(req)
	vAssert(vSeenCalls == 1, "port: one lookup")
	vAssert(vSeenPath == path, "port: path passed through")

	// reference: name | name:port | [lit]:port  (name, port free of ":[]"; lit free of "[]") => name / name / lit; else verbatim
	want := h
	first := strings.IndexByte(h, ':')
	last := strings.LastIndexByte(h, ':')
	if first > 0 {
		if h[0] == '[' {
			end := strings.IndexByte(h, ']')
			if end >= 0 && end+1 == last && !vHasByte(h[1:], '[') && !vHasByte(h[end+1:], ']') {
				want = h[1:end]
			}
		} else if first == last && !vHasByte(h, '[') && !vHasByte(h, ']') {
			want = h[:last]
		}
	}
	vAssert(vSeenHost == want, "port: lookup key is the host without its port")
	vCover(vSeenHost != h && h[0:1] != "[", "name:port reachable")
	vCover(vSeenHost != h && h[0:1] == "[", "[lit]:port reachable")
	vCover(first > 0 && vSeenHost == h, "malformed host:port looked up verbatim reachable")
}

// ---- Router.ServeHTTP: 404 and the strip-prefix context ----

var vServed *Service
var vServedPrefix string
var vServedHasCtx bool

//verif:stub (*github.com/basecamp/kamal-proxy/internal/server.Service).ServeHTTP harness=HarnessRoute404
func stubServiceServeRecord(s *Service, w http.ResponseWriter, r *http.Request) {
	vServed = s
	mp, has := vMatchedPrefix(r)
	vServedHasCtx = has
	if has {
		vServedPrefix = mp
	}
}

func HarnessRoute404() {
	r := NewRouter("/state")
	m, keys, tables := vArbitraryTable(vParam("keys", 1), vParam("bindings", 2), vParam("hostcap", 4), vParam("prefcap", 3))
	r.services = m
	strip := vBool("strip")
	for _, bs := range tables {
		for _, b := range bs {
			b.service.options.StripPrefix = strip
		}
	}
	host := vString("host", vParam("hostcap", 4))
	vAssume(!vHasByte(host, ':'))
	path := vString("path", vParam("pathcap", 4))
	vAssume(vOr(len(path) == 0, strings.HasPrefix(path, "/")))
	req := &http.Request{Method: "GET", Host: host, URL: &url.URL{Path: path}, Header: http.Header{}}
	w := vNewRecorder()
	r.ServeHTTP(w, req)
	want, wantPrefix := refRoute(keys, tables, host, path)
	if want == nil {
		vAssert(vServed == nil, "404: no service handles an unroutable request")
		vAssert(w.status == 404, "404: unroutable request answered 404")
	} else {
		vAssert(vServed == want, "404: routed request handed to the chosen service")
		vAssert(!w.wroteHeader, "404: router itself writes nothing for a routed request")
		vAssert(vServedHasCtx == vAnd(strip, wantPrefix != "/"), "strip: matched prefix attached iff stripping applies and the prefix is not the root")
		if vServedHasCtx {
			vAssert(vServedPrefix == wantPrefix, "strip: the attached prefix is the matched one")
		}
	}
	vCover(want == nil, "404 reachable")
	vCover(vServedHasCtx, "strip context reachable")
}
