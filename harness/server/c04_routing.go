package server

import "strings"

// ---- C04: routing ----

// vValidPrefix: the shape NormalizePathPrefixes produces ("/" + trimmed of slashes).
func vValidPrefix(p string) bool {
	n := len(p)
	if n == 0 {
		return false
	}
	if n == 1 {
		return p[0] == '/'
	}
	return vAnd(p[0] == '/', vAnd(p[1] != '/', p[n-1] != '/'))
}

// vArbitraryTable builds a ServiceMap whose requestServiceMap is an arbitrary table satisfying the
// representation invariant Inv (established by updateRequestServiceMap, see HarnessRouteBuild):
// K distinct host keys, each with 1..B bindings with valid, pairwise distinct prefixes sorted by
// non-increasing length.
func vArbitraryTable(K, B, hostCap, prefCap int) (*ServiceMap, []string, [][]*pathBinding) {
	m := NewServiceMap()
	keys := []string{}
	tables := [][]*pathBinding{}
	for i := 0; i < K; i++ {
		key := vString("key"+string(rune('0'+i)), hostCap)
		for _, k := range keys {
			vAssume(k != key)
		}
		nb := 1 + vChoose("nb"+string(rune('0'+i)), B)
		bs := []*pathBinding{}
		for j := 0; j < nb; j++ {
			p := vString("p"+string(rune('0'+i))+string(rune('0'+j)), prefCap)
			vAssume(vValidPrefix(p))
			for _, o := range bs {
				vAssume(o.pathPrefix != p)
			}
			if j > 0 {
				vAssume(len(bs[j-1].pathPrefix) >= len(p))
			}
			bs = append(bs, &pathBinding{pathPrefix: p, service: &Service{name: "s" + string(rune('0'+i)) + string(rune('0'+j))}})
		}
		keys = append(keys, key)
		tables = append(tables, bs)
		m.requestServiceMap[key] = bs
	}
	return m, keys, tables
}

// refRoute is the reference: the routing rule of C04 written directly from the statement.
func refRoute(keys []string, tables [][]*pathBinding, host, path string) (*Service, string) {
	cand := -1
	for i, k := range keys {
		if k == host {
			cand = i
			break
		}
	}
	if cand < 0 {
		dot := strings.IndexByte(host, '.')
		if dot > 0 {
			wk := "*" + host[dot:]
			for i, k := range keys {
				if k == wk {
					cand = i
					break
				}
			}
		}
	}
	if cand < 0 {
		for i, k := range keys {
			if k == "" {
				cand = i
				break
			}
		}
	}
	if cand < 0 {
		return nil, ""
	}
	var best *pathBinding
	for _, b := range tables[cand] {
		p := b.pathPrefix
		if vOr(p == "/", vOr(path == p, strings.HasPrefix(path, p+"/"))) {
			if best == nil || len(p) > len(best.pathPrefix) {
				best = b
			}
		}
	}
	if best == nil {
		return nil, ""
	}
	return best.service, best.pathPrefix
}

func HarnessRouteLookup() {
	K, B := vParam("keys", 2), vParam("bindings", 2)
	m, keys, tables := vArbitraryTable(K, B, vParam("hostcap", 6), vParam("prefcap", 4))
	host := vString("host", vParam("hostcap", 6))
	path := vString("path", vParam("pathcap", 6))
	vAssume(vOr(len(path) == 0, strings.HasPrefix(path, "/"))) // origin-form

	got, gotPrefix := m.serviceFor(host, path)
	want, wantPrefix := refRoute(keys, tables, host, path)

	vAssert(got == want, "route: service == reference")
	vAssert(gotPrefix == wantPrefix, "route: matched prefix == reference")
	vCover(got != nil && gotPrefix != "/", "non-root match reachable")
	vCover(got == nil, "404 reachable")
	vCover(got != nil && len(host) > 0 && len(keys) > 0 && keys[0] != host, "non-exact host match reachable")
}
