package server

import (
	"crypto/tls"
	"net/http"
	"net/http/httputil"
	"net/url"
	"strings"
)

// ---- C13: pass-through (the proxy-owned decisions) ----

// vAlphabet restricts a string to a small alphabet of interesting path bytes (stated bound).
func vAlphabet(s string, capN int, alphabet string) bool {
	ok := true
	for i := 0; i < capN; i++ {
		in := i < len(s)
		var b byte
		if in {
			b = s[i]
		}
		one := false
		for j := 0; j < len(alphabet); j++ {
			one = vOr(one, b == alphabet[j])
		}
		ok = vAnd(ok, vOr(!in, one))
	}
	return ok
}

func HarnessRewriteStrip() {
	tailCap := vParam("tailcap", 4)
	prefix := "/app"
	tail := vString("tail", tailCap)
	vAssume(vAlphabet(tail, tailCap, "/%2Fa"))
	vAssume(vOr(len(tail) == 0, strings.HasPrefix(tail, "/"))) // the prefix is a whole segment, spelled literally
	raw := prefix + tail
	in, err := url.ParseRequestURI(raw)
	vAssume(err == nil) // net/http rejects unparsable request targets before the proxy sees them
	query := vString("query", 3)
	in.RawQuery = query
	strip := vBool("strip")
	host := vString("host", 3)
	method := vIteStr(vBool("post"), "POST", "GET")
	inReq := &http.Request{Method: method, URL: in, Host: host, Header: http.Header{}, RemoteAddr: "1.2.3.4:5"}
	if strip {
		// what Router.ServeHTTP attaches when the service strips prefixes and the matched prefix is not "/"
		inReq = vWithStripContext(inReq, prefix)
	}
	outURL := *in
	outURL.RawQuery = vString("cleaned_query", 3) // ReverseProxy hands Rewrite a cleaned query
	outReq := &http.Request{Method: method, URL: &outURL, Host: host, Header: http.Header{}}
	t := vBareTarget("t1:80", TargetStateHealthy)
	t.rewrite(&httputil.ProxyRequest{In: inReq, Out: outReq})

	vAssert(outReq.Method == method, "rewrite: method unchanged")
	vAssert(outReq.Host == host, "rewrite: original Host kept")
	vAssert(outReq.URL.RawQuery == query, "rewrite: query string byte-identical")
	vAssert(outReq.URL.Scheme == "http" && outReq.URL.Host == "t1:80", "rewrite: sent to the target")
	inEsc := in.EscapedPath()
	want := inEsc
	if strip {
		want = strings.TrimPrefix(inEsc, prefix)
	}
	vAssert(outReq.URL.EscapedPath() == want, "rewrite: path on the wire = incoming path (percent-encoding untouched) less the matched prefix when stripping")
	vCover(strip && in.RawPath != "", "strip with encoded path reachable")
	vCover(!strip, "no strip reachable")
}

func HarnessXForwarded() {
	fwd := vBool("forward_headers")
	t := vBareTarget("t1:80", TargetStateHealthy)
	t.options.ForwardHeaders = fwd
	ip := vString("client_ip", 3)
	vAssume(vAnd(len(ip) > 0, vAnd(!vHasByte(ip, ':'), vAnd(!vHasByte(ip, '['), !vHasByte(ip, ']')))))
	host := vString("host", 3)
	in := &http.Request{Method: "GET", URL: &url.URL{Path: "/"}, Host: host, Header: http.Header{}, RemoteAddr: ip + ":4711"}
	overTLS := vBool("over_tls")
	if overTLS {
		in.TLS = &tls.ConnectionState{}
	}
	hasFor, hasProto, hasHost := vBool("has_xff"), vBool("has_xfp"), vBool("has_xfh")
	xff, xfp, xfh := vString("xff", 3), vString("xfp", 3), vString("xfh", 3)
	if hasFor {
		in.Header["X-Forwarded-For"] = []string{xff}
	}
	if hasProto {
		in.Header["X-Forwarded-Proto"] = []string{xfp}
	}
	if hasHost {
		in.Header["X-Forwarded-Host"] = []string{xfh}
	}
	// ReverseProxy removes the forwarding headers from Out before calling Rewrite
	out := &http.Request{Method: "GET", URL: &url.URL{Path: "/"}, Host: host, Header: http.Header{}}
	t.rewrite(&httputil.ProxyRequest{In: in, Out: out})

	wantFor := ip
	if fwd && hasFor {
		wantFor = xff + ", " + ip
	}
	gotFor := out.Header["X-Forwarded-For"]
	vAssert(len(gotFor) == 1 && gotFor[0] == wantFor, "xfwd: X-Forwarded-For is the client address; client-supplied values kept (and appended to) only when header forwarding is on")
	wantProto := "http"
	if overTLS {
		wantProto = "https"
	}
	if fwd && hasProto && xfp != "" {
		wantProto = xfp
	}
	vAssert(out.Header.Get("X-Forwarded-Proto") == wantProto, "xfwd: X-Forwarded-Proto describes the connection unless forwarding is on and the client sent one")
	wantHost := host
	if fwd && hasHost && xfh != "" {
		wantHost = xfh
	}
	vAssert(out.Header.Get("X-Forwarded-Host") == wantHost, "xfwd: X-Forwarded-Host describes the connection unless forwarding is on and the client sent one")
	vCover(fwd && hasFor, "forwarding with client value reachable")
	vCover(!fwd && hasFor, "discarding client value reachable")
}

// vHeaderSpy is the target handler for HarnessRequestIDs.
type vHeaderSpy struct {
	seen  int
	id    string
	start string
	hasID bool
	hasSt bool
}

func (h *vHeaderSpy) ServeHTTP(w http.ResponseWriter, r *http.Request) {
	h.seen++
	h.id, h.start = r.Header.Get("X-Request-ID"), r.Header.Get("X-Request-Start")
	_, h.hasID = r.Header["X-Request-Id"]
	_, h.hasSt = r.Header["X-Request-Start"]
	w.WriteHeader(204)
}

func HarnessRequestIDs() {
	router := NewRouter("/state")
	svc, err := NewService("svc", ServiceOptions{}, TargetOptions{HealthCheckConfig: HealthCheckConfig{Path: "/up"}})
	vAssert(err == nil, "ids: service builds")
	lb := vBalancer("t1")
	spy := &vHeaderSpy{}
	lb.all[0].proxyHandler = spy
	svc.active = lb
	router.services.Set(svc)
	srv := NewServer(&Config{}, router)
	h := srv.buildHandler()

	req := vPlainRequest("/x")
	req.RemoteAddr = "1.2.3.4:5"
	clientID, clientStart := vString("client_id", 3), vString("client_start", 3)
	if vBool("has_id") {
		req.Header["X-Request-Id"] = []string{clientID}
	}
	if vBool("has_start") {
		req.Header["X-Request-Start"] = []string{clientStart}
	}
	givenID := len(req.Header["X-Request-Id"]) > 0 && clientID != ""
	givenStart := len(req.Header["X-Request-Start"]) > 0 && clientStart != ""
	w := vNewRecorder()
	h.ServeHTTP(w, req)
	vAssert(spy.seen == 1 && w.status == 204, "ids: request reaches the target through the full handler chain")
	vAssert(spy.id != "" && spy.start != "", "ids: every forwarded request carries X-Request-ID and X-Request-Start")
	if givenID {
		vAssert(spy.id == clientID, "ids: the client's X-Request-ID is kept")
	} else {
		vAssert(spy.id == "generated-id-1" && vUUIDs == 1, "ids: otherwise a freshly generated id is set")
	}
	if givenStart {
		vAssert(spy.start == clientStart, "ids: the client's X-Request-Start is kept")
	}
	vAssert(len(vLogRecords) == 1, "ids: the logging middleware sits in the chain")
	if len(vLogRecords) == 1 {
		f, _ := vLogField(vLogRecords[0], "request_id")
		vAssert(f.str == spy.id, "ids: the id is assigned before the access log reads it (start -> id -> logging -> pages -> router)")
	}
	vCover(!givenID, "generated id reachable")
	vCover(givenID, "client id reachable")
}

// HarnessProxyWiring: the real reverse proxy object is wired to the target's own methods and timeout.
func HarnessProxyWiring() {
	rt := vDuration("response_timeout")
	t, err := NewTarget("backend:3000", TargetOptions{ResponseTimeout: rt, HealthCheckConfig: HealthCheckConfig{Path: "/up"}})
	vAssert(err == nil, "wiring: target builds")
	rp, ok := t.proxyHandler.(*httputil.ReverseProxy)
	vAssert(ok, "wiring: unbuffered target uses the reverse proxy directly")
	if ok {
		tr, ok2 := rp.Transport.(*http.Transport)
		vAssert(ok2 && tr.ResponseHeaderTimeout == rt, "wiring: response-header timeout is the target timeout")
		vAssert(rp.Rewrite != nil && rp.ErrorHandler != nil && rp.Director == nil, "wiring: Rewrite and ErrorHandler installed")
		// (net/http: with MaxConnsPerHost set, requests beyond the cap block in the transport's queue, where the
		// response-header timeout is not running: a silent target would then be answered later than the target timeout)
		vAssert(ok2 && tr.MaxConnsPerHost == 0, "wiring: no per-host connection cap queues requests outside the response-header timeout")
	}
	vAssert(t.Target() == "backend:3000", "wiring: target name")
	// buffering wrappers are applied outermost-request, then response, then proxy
	t2, _ := NewTarget("backend:3000", TargetOptions{BufferRequests: true, BufferResponses: true, MaxMemoryBufferSize: 10, MaxRequestBodySize: 20, MaxResponseBodySize: 30})
	rq, ok := t2.proxyHandler.(*RequestBufferMiddleware)
	vAssert(ok && rq.maxBytes == 20 && rq.maxMemBytes == 10, "wiring: request buffer outermost with its limits")
	if ok {
		rs, ok := rq.next.(*ResponseBufferMiddleware)
		vAssert(ok && rs.maxBytes == 30 && rs.maxMemBytes == 10, "wiring: response buffer next with its limits")
	}
	vCover(true, "wiring checked")
}

// HarnessResponsePassthrough: the target's status, headers and body come back through the whole server chain
// (logging, request ids, error pages, service, target response writer; with and without response buffering)
// unchanged - also when the target sends an informational 103 first and when it writes the body in two pieces.
func HarnessResponsePassthrough() {
	router := NewRouter("/state")
	buffered := vBool("buffer_responses")
	opts := ServiceOptions{Hosts: []string{"example.com"}}
	topts := TargetOptions{HealthCheckConfig: HealthCheckConfig{Path: "/up"}, BufferResponses: buffered, MaxMemoryBufferSize: 1 << 20, MaxResponseBodySize: 0}
	svc, err := NewService("svc", opts, topts)
	vAssert(err == nil, "passthrough: service builds")
	t, err := NewTarget("backend:3000", topts)
	vAssert(err == nil, "passthrough: target builds")
	t.state = TargetStateHealthy
	status := vIntRange("status", 200, 599)
	hdr := vString("resp_hdr", 2)
	body1 := vBytes("body1", vChoose("len1", 3))
	body2 := vBytes("body2", vChoose("len2", 2))
	early := vChoose("early_hints", 2) == 1
	// a HEAD request: the target announces the length of the body it would send and sends none
	head := vChoose("head_request", 2) == 1
	inner := http.HandlerFunc(func(w http.ResponseWriter, r *http.Request) {
		w.Header()["X-Custom"] = []string{hdr}
		if head {
			w.Header()["Content-Length"] = []string{"21"}
			w.WriteHeader(status)
			return
		}
		if early {
			w.WriteHeader(103)
		}
		w.WriteHeader(status)
		w.Write(body1)
		w.Write(body2)
	})
	// the target's handler chain as NewTarget builds it (buffering middlewares in front of the proxy handler)
	t.proxyHandler = vRebuildTargetChain(t, inner)
	lb := &LoadBalancer{healthy: TargetList{}, all: TargetList{t}}
	t.stateConsumer = lb
	lb.updateHealthyTargets()
	svc.active = lb
	router.services.Set(svc)
	srv := NewServer(&Config{HttpPort: 80, HttpsPort: 443}, router)
	h := srv.buildHandler()
	u := &url.URL{Path: "/x"}
	vRequestURI[u] = "/x"
	method := "GET"
	if head {
		method = "HEAD"
	}
	req := &http.Request{Method: method, URL: u, Host: "example.com", Header: http.Header{}, RemoteAddr: "1.2.3.4:5", Proto: "HTTP/1.1"}
	client := vNewRecorder()
	h.ServeHTTP(client, req)
	client.finish()
	vAssert(client.status == status, "passthrough: the client receives the target's final status")
	if head {
		cl := client.Header()["Content-Length"]
		vAssert(len(client.body) == 0 && len(cl) == 1 && cl[0] == "21", "passthrough: the answer to a HEAD request keeps the Content-Length the target announced")
		return
	}
	vAssert(string(client.body) == string(body1)+string(body2), "passthrough: the client receives the target's body")
	got := client.Header()["X-Custom"]
	vAssert(len(got) == 1 && got[0] == hdr, "passthrough: the client receives the target's headers")
	vCover(early && status != 200, "early hints then a non-200 status reachable")
	vCover(buffered, "buffered reachable")
}

// vRebuildTargetChain: the handler chain NewTarget puts in front of a target's proxy handler (HarnessProxyWiring checks
// that NewTarget wires exactly this), around a scripted stand-in for the reverse proxy.
func vRebuildTargetChain(t *Target, inner http.Handler) http.Handler {
	h := inner
	if t.options.BufferResponses {
		h = WithResponseBufferMiddleware(t.options.MaxMemoryBufferSize, t.options.MaxResponseBodySize, h)
	}
	if t.options.BufferRequests {
		h = WithRequestBufferMiddleware(t.options.MaxMemoryBufferSize, t.options.MaxRequestBodySize, h)
	}
	return h
}

// HarnessBufferPool: the copy buffers ReverseProxy takes from the target's pool while streaming a body: two buffers
// that are out at the same time (two responses being copied concurrently) never share memory, and each has the
// configured size. (A shared buffer mixes the bodies of concurrent responses.)
func HarnessBufferPool() {
	n := vIntRange("size", 1, 4)
	p := NewBufferPool(int64(n))
	b1 := p.Get()
	b2 := p.Get()
	vAssert(len(b1) == n && len(b2) == n, "pool: buffers have the configured size")
	b1[0] = 1
	b2[0] = 2
	vAssert(b1[0] == 1 && b2[0] == 2, "pool: two buffers in use at the same time do not share memory")
	p.Put(b1)
	b3 := p.Get()
	b3[0] = 3
	vAssert(b2[0] == 2, "pool: a buffer handed out again does not alias one still in use")
	vCover(n > 1, "larger buffer reachable")
}

// HarnessStripE2E: prefix stripping through the composition Router.ServeHTTP -> Service.ServeHTTP (middleware chain of
// the real constructor, with or without request/response buffering) -> target handler -> the real Target.rewrite.
// RewriteStrip proves the rewrite for a context built by hand and Route404 that the router attaches it; this one
// checks that what the router attached is what the rewrite sees after the service's own handlers ran.
func HarnessStripE2E() {
	vFixMapOrderType("requestServiceMap")
	vSortMode = 0
	strip := vBool("strip")
	buffer := vBool("buffer")
	mk := func(name, prefix string, strip bool) *Service {
		opts := ServiceOptions{Hosts: []string{"h"}, PathPrefixes: []string{prefix}, StripPrefix: strip}
		topts := TargetOptions{HealthCheckConfig: HealthCheckConfig{Path: "/up"}, BufferRequests: buffer, BufferResponses: buffer,
			MaxMemoryBufferSize: 1 << 20, MaxRequestBodySize: 1 << 20, MaxResponseBodySize: 1 << 20}
		s, err := NewService(name, opts, topts)
		vAssert(err == nil, "strip e2e: service builds")
		s.active = vBalancer("t-" + name + ":80")
		return s
	}
	r := NewRouter("/state")
	r.services.Set(mk("root", "/", vBool("root_strip")))
	r.services.Set(mk("sub", "/app", strip))
	tail := vString("tail", vParam("tailcap", 3))
	vAssume(vOr(len(tail) == 0, strings.HasPrefix(tail, "/")))
	vAssume(strings.Count(tail, "/")+strings.Count(tail, "a") == len(tail))
	toSub := vChoose("to_root", 2) == 0
	path := "/x" + tail
	if toSub {
		path = "/app" + tail
	}
	req := &http.Request{Method: "GET", URL: &url.URL{Path: path}, Host: "h", Header: http.Header{}, RemoteAddr: "1.2.3.4:5"}
	w := vNewRecorder()
	r.ServeHTTP(w, req)
	w.finish()
	vAssert(w.status == 200 && len(vForwards) == 1, "strip e2e: the request is forwarded once")
	if len(vForwards) != 1 {
		return
	}
	f := vForwards[0]
	outURL := *f.req.URL
	out := &http.Request{Method: f.req.Method, URL: &outURL, Host: f.req.Host, Header: http.Header{}}
	f.target.rewrite(&httputil.ProxyRequest{In: f.req, Out: out})
	want := path
	if toSub && strip {
		want = tail
	}
	vAssert(out.URL.Path == want, "strip e2e: the target receives the path less the matched prefix iff its service strips prefixes")
	vAssert(out.Host == "h", "strip e2e: original Host kept")
	vCover(toSub && strip, "stripped reachable")
	vCover(!toSub, "root service reachable")
}

// HarnessBodyUntouched: the request body belongs to the target. A POST whose body is form-encoded / multipart / JSON,
// through Router -> Service (with or without rollout targets and a split, with or without the rollout cookie) -> the
// target's handler: nothing on the way has read from the body or closed it (the proxy's own request buffering is off
// here; it is C14's subject).
func HarnessBodyUntouched() {
	vFixMapOrderType("requestServiceMap")
	vSortMode = 0
	s, err := NewService("svc", ServiceOptions{Hosts: []string{"h"}, PathPrefixes: []string{"/"}}, TargetOptions{HealthCheckConfig: HealthCheckConfig{Path: "/up"}})
	vAssert(err == nil, "body: service builds")
	s.active = vBalancer("t-active:80")
	withRollout := vBool("rollout")
	if withRollout {
		s.UpdateLoadBalancer(vBalancer("t-rollout:80"), TargetSlotRollout)
		vAssert(s.SetRolloutSplit(vChoose("pct", 3)*50, []string{"vip"}) == nil, "body: split accepted")
	}
	r := NewRouter("/state")
	r.services.Set(s)
	body := &vChunkReader{chunks: [][]byte{[]byte("kamal-rollout=vip&a=1")}}
	reads := 0
	body.onRead = func(int) { reads++ }
	req := &http.Request{Method: "POST", URL: &url.URL{Path: "/submit"}, Host: "h", Header: http.Header{}, Body: body, ContentLength: 21, RemoteAddr: "1.2.3.4:5"}
	switch vChoose("content_type", 3) {
	case 0:
		req.Header.Set("Content-Type", "application/x-www-form-urlencoded")
	case 1:
		req.Header.Set("Content-Type", "multipart/form-data; boundary=x")
	case 2:
		req.Header.Set("Content-Type", "application/json")
	}
	if vBool("has_cookie") {
		req.Header["Cookie"] = []string{RolloutCookieName + "=vip"}
	}
	w := vNewRecorder()
	r.ServeHTTP(w, req)
	w.finish()
	vAssert(w.status == 200 && len(vForwards) == 1, "body: the request is forwarded once")
	if len(vForwards) == 1 {
		vAssert(vForwards[0].req.Body == body, "body: the target is handed the client's body")
	}
	vAssert(reads == 0 && body.i == 0 && body.closed == 0, "body: nothing before the target reads or closes the request body")
	vCover(withRollout, "rollout reachable")
}
