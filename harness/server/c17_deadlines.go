package server

// ---- C17: commands return within their timeouts and leave no probes behind (T2) ----

func HarnessNoProbesAfter() {
	vT2(vParam("preemptions", 0), vParam("firings", 16))
	vSortMode = 0
	router := NewRouter("/state")
	interval := vDur("interval")
	vAssume(interval > 0)
	ptimeout := vDur("probe_timeout")
	vAssume(ptimeout > 0)
	deployTimeout := vDur("deploy_timeout")
	drainTimeout := vDur("drain_timeout")
	topts := TargetOptions{HealthCheckConfig: HealthCheckConfig{Path: "/up", Interval: interval, Timeout: ptimeout}}
	healthy := &vProbeScript{outcomes: []vProbeOutcome{{kind: vProbeStatus, status: 200, latency: 0}}}
	failing := &vProbeScript{outcomes: []vProbeOutcome{{kind: vProbeStatus, status: 500, latency: 0}}}

	// an existing service deployed through the real path (so that its targets are probed)
	vProbeScripts["a0:80"] = healthy
	vAssume(deployTimeout > 0)
	vAssert(router.DeployService("svc", []string{"a0:80"}, ServiceOptions{Hosts: []string{"h"}}, topts, deployTimeout, drainTimeout) == nil, "probes: initial deploy succeeds")
	scenario := vChoose("scenario", 6)
	concerned := []string{}
	begin := vNow()
	var err error
	wantErr := false
	switch scenario {
	case 0: // remove
		err = router.RemoveService("svc")
		concerned = []string{"a0:80"}
	case 1: // successful redeploy: the replaced target must not be probed any more
		vProbeScripts["b0:80"] = healthy
		err = router.DeployService("svc", []string{"b0:80"}, ServiceOptions{Hosts: []string{"h"}}, topts, deployTimeout, drainTimeout)
		concerned = []string{"a0:80"}
	case 2: // failed deploy: a target never becomes healthy (the other answers late but in time)
		late := vDur("late")
		vAssume(late < ptimeout && late < deployTimeout)
		vProbeScripts["b0:80"] = &vProbeScript{outcomes: []vProbeOutcome{{kind: vProbeStatus, status: 200, latency: late}}}
		vProbeScripts["b1:80"] = failing
		err = router.DeployService("svc", []string{"b0:80", "b1:80"}, ServiceOptions{Hosts: []string{"h"}}, topts, deployTimeout, drainTimeout)
		concerned = []string{"b0:80", "b1:80"}
		wantErr = true
	case 3: // failed deploy: host conflict detected late (after the new targets were created and found healthy)
		vProbeScripts["c0:80"] = healthy
		err = router.DeployService("other", []string{"c0:80"}, ServiceOptions{Hosts: []string{"h"}}, topts, deployTimeout, drainTimeout)
		concerned = []string{"c0:80"}
		wantErr = true
	case 5: // rollout targets deployed (no split set), then the service is removed
		vProbeScripts["r0:80"] = healthy
		vAssert(router.SetRolloutTargets("svc", []string{"r0:80"}, deployTimeout, drainTimeout) == nil, "probes: rollout deploy succeeds")
		begin = vNow()
		err = router.RemoveService("svc")
		concerned = []string{"a0:80", "r0:80"}
	case 4: // failed rollout deploy: never healthy
		vProbeScripts["r0:80"] = failing
		err = router.SetRolloutTargets("svc", []string{"r0:80"}, deployTimeout, drainTimeout)
		concerned = []string{"r0:80"}
		wantErr = true
	}
	ret := vNow()
	vEmit(vEvent{kind: "cmd_return", ok: err == nil})
	retIdx := len(vTrace) - 1
	vAssert((err != nil) == wantErr, "probes: command outcome as expected for the scenario")
	// keep the proxy running for two more probe intervals
	vSleep(interval + interval + 1)
	vNote(vTraceString())
	for k := retIdx + 1; k < len(vTrace); k++ {
		e := vTrace[k]
		if e.kind != "probe_begin" {
			continue
		}
		for _, t := range concerned {
			if e.target == t {
				if scenario == 3 {
					vAssert(false, "probes: no health probe is sent to a rejected target after the command returned [deploy rejected by a host conflict]")
				} else {
					vAssert(false, "probes: no health probe is sent to a removed / replaced / rejected target after the command returned")
				}
			}
		}
	}
	// the targets that stay in service keep being probed
	if scenario == 2 || scenario == 3 || scenario == 4 {
		seen := false
		for k := retIdx + 1; k < len(vTrace); k++ {
			if vTrace[k].kind == "probe_begin" && vTrace[k].target == "a0:80" {
				seen = true
			}
		}
		vAssert(seen, "probes: the targets that remain in service keep being probed at the interval")
	}
	// deadlines and promptness (virtual clock)
	switch scenario {
	case 0, 5:
		vAssert(ret == begin, "deadline: remove returns without waiting")
	case 1:
		vAssert(ret == begin, "deadline: a deploy whose targets answer at once, with nothing in flight, returns at once")
	case 2, 4:
		vAssert(ret == begin+int64(deployTimeout), "deadline: a deploy that never becomes healthy returns exactly at the deploy timeout")
	case 3:
		vAssert(ret == begin, "deadline: a conflicting deploy returns as soon as its targets are healthy")
	}
	vCover(scenario == 1 && err == nil, "redeploy reachable")
	vCover(scenario == 2 && err != nil, "failed deploy reachable")
}
