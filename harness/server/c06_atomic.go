package server

// ---- C06: a command that fails changes nothing and leaves nothing running (T2 for the probing classes) ----

type vObservable struct {
	svc        *Service
	active     *LoadBalancer
	rollout    *LoadBalancer
	rc         *RolloutController
	state      PauseState
	msg        string
	failAfter  int64
	tls, redir bool
	file       []byte
	list       ServiceDescriptionMap
}

func vObserve(r *Router) vObservable {
	o := vObservable{}
	o.svc = r.services.Get("svc")
	if o.svc != nil {
		o.active, o.rollout, o.rc = o.svc.active, o.svc.rollout, o.svc.rolloutController
		o.state, o.msg, o.failAfter = o.svc.pauseController.State, o.svc.pauseController.StopMessage, int64(o.svc.pauseController.FailAfter)
		o.tls, o.redir = o.svc.options.TLSEnabled, o.svc.options.TLSRedirect
	}
	o.file = append([]byte{}, vStateFile()...)
	o.list = r.ListActiveServices()
	return o
}

func HarnessFailAtomic() {
	vT2(vParam("preemptions", 0), vParam("firings", 12))
	vSortMode = 0
	vSnapshotReal = true
	vMapOrderFixed(true)
	router := NewRouter("/state")
	interval := vDur("interval")
	vAssume(interval > 0)
	ptimeout := vDur("probe_timeout")
	vAssume(ptimeout > 0)
	deployTimeout := vDur("deploy_timeout")
	drainTimeout := vDur("drain_timeout")
	topts := TargetOptions{HealthCheckConfig: HealthCheckConfig{Path: "/up", Interval: interval, Timeout: ptimeout}}
	svc, _ := vInstallOldService(router, topts)
	// arbitrary pause and rollout state of the existing service
	msg0 := vString("msg0", 2)
	switch vChoose("pause", 3) {
	case 1:
		svc.pauseController.Pause(vDur("max_pause"))
	case 2:
		svc.pauseController.Stop(msg0)
	}
	hasRollout := vChoose("has_rollout", 2) == 1
	if hasRollout {
		t, _ := NewTarget("rold:80", topts)
		t.state = TargetStateHealthy
		lb := &LoadBalancer{healthy: TargetList{}, all: TargetList{t}}
		t.stateConsumer = lb
		lb.updateHealthyTargets()
		svc.rollout = lb
		if vChoose("has_split", 2) == 1 {
			svc.rolloutController = NewRolloutController(50, []string{"x"})
		}
	}
	vAssert(router.saveStateSnapshot() == nil, "atomic: initial snapshot")
	before := vObserve(router)

	healthy := &vProbeScript{outcomes: []vProbeOutcome{{kind: vProbeStatus, status: 200, latency: 0}}}
	failing := &vProbeScript{outcomes: []vProbeOutcome{{kind: vProbeStatus, status: 500, latency: 0}}}
	newTargets := []string{}
	var err error
	class := vChoose("error_class", 13)
	opts := ServiceOptions{Hosts: []string{"h"}}
	switch class {
	case 0: // malformed target (after a well-formed one)
		vProbeScripts["n0:80"] = healthy
		err = router.DeployService("svc", []string{"n0:80", "not a host!"}, opts, topts, deployTimeout, drainTimeout)
		newTargets = []string{"n0:80"}
	case 1: // a target that does not become healthy
		vProbeScripts["n0:80"] = healthy
		vProbeScripts["n1:80"] = failing
		err = router.DeployService("svc", []string{"n0:80", "n1:80"}, opts, topts, deployTimeout, drainTimeout)
		newTargets = []string{"n0:80", "n1:80"}
	case 2: // unreadable certificate
		vLoadCertFails = true
		o := opts
		o.TLSEnabled, o.TLSCertificatePath, o.TLSPrivateKeyPath = true, "c.pem", "k.pem"
		err = router.DeployService("svc", []string{"n0:80"}, o, topts, deployTimeout, drainTimeout)
	case 3: // unreadable error-page directory
		vCustomParseFails["/pages"] = true
		o := opts
		o.ErrorPagePath = "/pages"
		err = router.DeployService("svc", []string{"n0:80"}, o, topts, deployTimeout, drainTimeout)
	case 4: // automatic TLS with a wildcard host
		o := ServiceOptions{Hosts: []string{"*.example.com"}, TLSEnabled: true}
		err = router.DeployService("svc", []string{"n0:80"}, o, topts, deployTimeout, drainTimeout)
	case 5: // host conflict (detected late: the new targets were created and became healthy)
		vProbeScripts["n0:80"] = healthy
		vAssume(deployTimeout > 0)
		err = router.DeployService("other", []string{"n0:80"}, opts, topts, deployTimeout, drainTimeout)
		newTargets = []string{"n0:80"}
	case 6:
		err = router.PauseService("nosuch", drainTimeout, 1000)
	case 7:
		err = router.StopService("nosuch", drainTimeout, "m")
	case 8:
		err = router.ResumeService("nosuch")
	case 9:
		err = router.RemoveService("nosuch")
	case 10: // rollout commands on an unknown service / a split without rollout targets
		switch vChoose("rollout_cmd", 3) {
		case 0:
			err = router.SetRolloutTargets("nosuch", []string{"n0:80"}, deployTimeout, drainTimeout)
		case 1:
			err = router.SetRolloutSplit("nosuch", 10, nil)
		case 2:
			err = router.StopRollout("nosuch")
		}
	case 11:
		vAssume(!hasRollout)
		err = router.SetRolloutSplit("svc", 10, nil)
	case 12: // rollout deploy on the live service whose target does not become healthy
		vProbeScripts["n1:80"] = failing
		err = router.SetRolloutTargets("svc", []string{"n1:80"}, deployTimeout, drainTimeout)
		newTargets = []string{"n1:80"}
	}
	vEmit(vEvent{kind: "cmd_return", ok: err == nil})
	retIdx := len(vTrace) - 1
	vAssert(err != nil, "atomic: the command reports its error")
	fileAfterCmd := append([]byte{}, vStateFile()...)

	after := vObserve(router)
	vAssert(after.svc == before.svc && router.services.Get("other") == nil && len(router.services.services) == 1, "atomic: routing is what it was")
	vAssert(after.active == before.active && after.rollout == before.rollout, "atomic: the service keeps its targets")
	vAssert(after.rc == before.rc, "atomic: rollout split unchanged")
	vAssert(after.state == before.state && after.msg == before.msg && after.failAfter == before.failAfter, "atomic: pause state unchanged")
	vAssert(after.tls == before.tls && after.redir == before.redir, "atomic: options unchanged")
	vAssert(len(after.list) == len(before.list), "atomic: list output unchanged")
	for k, d := range before.list {
		d2, ok := after.list[k]
		vAssert(ok && d == d2, "atomic: list output unchanged")
	}
	vAssert(vJSONEqual(fileAfterCmd, before.file), "atomic: the saved state is what it was")
	vAssert(router.saveStateSnapshot() == nil, "atomic: snapshot after")
	vAssert(vJSONEqual(vStateFile(), before.file), "atomic: a new snapshot equals the old one")
	// nothing keeps running on the command's behalf
	vSleep(interval + interval + 1)
	vNote(vTraceString())
	for k := retIdx + 1; k < len(vTrace); k++ {
		if vTrace[k].kind == "probe_begin" {
			for _, t := range newTargets {
				vAssert(vTrace[k].target != t, "atomic: the proxy stops probing the targets it rejected")
			}
		}
	}
	vCover(class == 1, "never-healthy class reachable")
	vCover(class == 5, "late conflict class reachable")
}

// HarnessFailKeepsProbing: the pre-state is built through the real commands, so every installed target has its
// health-check loop running; then a command fails late (after its new targets were created): the targets the proxy
// keeps must still be probed afterwards, the rejected ones no more.
func HarnessFailKeepsProbing() {
	vT2(vParam("preemptions", 0), vParam("firings", 40))
	vSortMode = 0
	vSnapshotReal = true
	vMapOrderFixed(true)
	router := NewRouter("/state")
	topts := TargetOptions{HealthCheckConfig: HealthCheckConfig{Path: "/up", Interval: 1000, Timeout: 500}}
	for _, n := range []string{"a0:80", "r0:80", "b0:80", "n0:80"} {
		vProbeScripts[n] = vHealthyScript()
	}
	vProbeScripts["bad:80"] = &vProbeScript{outcomes: []vProbeOutcome{{kind: vProbeStatus, status: 500, latency: 0}}}
	vAssert(router.DeployService("svc", []string{"a0:80"}, ServiceOptions{Hosts: []string{"h"}}, topts, 5000, 100) == nil, "keeps: deploy svc")
	withRollout := vChoose("with_rollout", 2) == 1
	if withRollout {
		vAssert(router.SetRolloutTargets("svc", []string{"r0:80"}, 5000, 100) == nil, "keeps: rollout deploy")
	}
	vAssert(router.DeployService("other", []string{"b0:80"}, ServiceOptions{Hosts: []string{"g"}}, topts, 5000, 100) == nil, "keeps: deploy other")
	kept := []string{"a0:80", "b0:80"}
	if withRollout {
		kept = append(kept, "r0:80")
	}
	var err error
	rejected := []string{}
	switch vChoose("failing_command", 4) {
	case 0: // redeploy of svc onto a host owned by another service (detected late)
		err = router.DeployService("svc", []string{"n0:80"}, ServiceOptions{Hosts: []string{"g"}}, topts, 5000, 100)
		rejected = []string{"n0:80"}
	case 1: // redeploy of svc with a target that never becomes healthy
		err = router.DeployService("svc", []string{"n0:80", "bad:80"}, ServiceOptions{Hosts: []string{"h"}}, topts, 1500, 100)
		rejected = []string{"n0:80", "bad:80"}
	case 2: // rollout deploy that never becomes healthy
		err = router.SetRolloutTargets("svc", []string{"bad:80"}, 1500, 100)
		rejected = []string{"bad:80"}
	case 3: // a new service claiming an owned host
		err = router.DeployService("third", []string{"n0:80"}, ServiceOptions{Hosts: []string{"h"}}, topts, 5000, 100)
		rejected = []string{"n0:80"}
	}
	vAssert(err != nil, "keeps: the command reports its error")
	vEmit(vEvent{kind: "cmd_return", ok: false})
	retIdx := len(vTrace) - 1
	vSleep(2500)
	vNote(vTraceString())
	for _, n := range kept {
		probed := false
		for k := retIdx + 1; k < len(vTrace); k++ {
			if vTrace[k].kind == "probe_begin" && vTrace[k].target == n {
				probed = true
			}
		}
		vAssert(probed, "keeps: the targets the proxy kept are still probed after a failed command")
	}
	for k := retIdx + 1; k < len(vTrace); k++ {
		if vTrace[k].kind == "probe_begin" {
			for _, n := range rejected {
				vAssert(vTrace[k].target != n, "keeps: the proxy stops probing the targets it rejected")
			}
		}
	}
	vCover(withRollout, "service with rollout targets reachable")
}
