package server

import (
	"errors"
	"math"
	"net/http"
	"net/url"
	"strings"
)

// ---- C10: rollout split ----

type vCookie struct {
	has   bool
	value string
}

var vCookies = map[*http.Request]vCookie{}
var errVNoCookie = errors.New("http: named cookie not present")

// stubRequestCookie replaces net/http's cookie-header parser (outside the claim): a request either carries
// the cookie with the given value or does not.
//
//verif:stub (*net/http.Request).Cookie
func stubRequestCookie(r *http.Request, name string) (*http.Cookie, error) {
	// the model reads the Cookie header lines in the shapes the harness writes: the rollout cookie alone on a line, or
	// after another cookie on the same line ("other=1; kamal-rollout=<value>"), on any of the lines (net/http scans all
	// Cookie lines); requests derived with WithContext share the header map
	if name != RolloutCookieName {
		return nil, errVNoCookie
	}
	prefix := RolloutCookieName + "="
	for _, line := range r.Header["Cookie"] {
		if strings.HasPrefix(line, prefix) {
			return &http.Cookie{Name: name, Value: strings.TrimPrefix(line, prefix)}, nil
		}
		if strings.HasPrefix(line, "other=1; "+prefix) {
			return &http.Cookie{Name: name, Value: strings.TrimPrefix(line, "other=1; "+prefix)}, nil
		}
	}
	return nil, errVNoCookie
}

// vCookieValueOK: the octets net/http accepts verbatim in a cookie value (so that the native replay,
// which goes through the real parser, sees the same value).
func vCookieValueOK(v string, cap int) bool {
	ok := true
	for i := 0; i < cap; i++ {
		in := i < len(v)
		var b byte
		if in {
			b = v[i]
		}
		good := vAnd(b >= 0x21, vAnd(b < 0x7f, vAnd(b != '"', vAnd(b != ';', vAnd(b != '\\', b != ',')))))
		ok = vAnd(ok, vOr(!in, good))
	}
	return ok
}

var vCookieLayout = -1

func vRolloutRequest(tag string, has bool, value string) *http.Request {
	r := &http.Request{Method: vIteStr(vBool(tag+"_post"), "POST", "GET"), URL: &url.URL{Path: vString(tag+"_path", 3)}, Header: http.Header{}, Host: vString(tag+"_host", 3)}
	if has {
		// several cookies: the rollout cookie alone, on a second Cookie line, or after another cookie on the same line
		// (one choice per run: the first request built gets the chosen layout, each further one the next layout)
		if vCookieLayout < 0 {
			vCookieLayout = vChoose("cookie_layout", 3)
		} else {
			vCookieLayout = (vCookieLayout + 1) % 3
		}
		switch vCookieLayout {
		case 0:
			r.Header["Cookie"] = []string{RolloutCookieName + "=" + value}
		case 1:
			r.Header["Cookie"] = []string{"other=1", RolloutCookieName + "=" + value}
		case 2:
			r.Header["Cookie"] = []string{"other=1; " + RolloutCookieName + "=" + value}
		}
	} else {
		r.Header["Cookie"] = []string{"other=1"}
	}
	vCookies[r] = vCookie{has: has, value: value}
	return r
}

// refFNV1a is the reference hash (FNV-1a, 32 bit) written from its definition.
func refFNV1a(s string) uint32 {
	h := uint32(2166136261)
	for i := 0; i < len(s); i++ {
		h ^= uint32(s[i])
		h *= 16777619
	}
	return h
}

func HarnessRolloutSplit() {
	capV := vParam("valuecap", 8)
	p := vChoose("pct", 101)
	value := vString("value", capV)
	vAssume(vCookieValueOK(value, capV))
	has := vBool("has_cookie")
	nAllow := vChoose("n_allow", 3)
	allow := []string{}
	for i := 0; i < nAllow; i++ {
		a := vString("allow"+string(rune('0'+i)), vParam("allowcap", 3))
		allow = append(allow, a)
	}

	rc := NewRolloutController(p, allow)
	r1 := vRolloutRequest("r1", has, value)
	got := rc.RequestUsesRolloutGroup(r1)

	// reference decision
	inAllow := false
	for _, a := range allow {
		inAllow = vOr(inAllow, a == value)
	}
	// (reference threshold computed here, not read back from the controller)
	thr := float64(uint32(0xFFFFFFFF)) * (float64(p) / 100.0)
	inPct := float64(refFNV1a(value)) <= thr
	want := vAnd(has, vAnd(value != "", vOr(inAllow, inPct)))
	vAssert(got == want, "split: decision == cookie present and (allowlisted or hash within percentage)")

	// pure function of the cookie value: a second, otherwise unrelated request decides alike
	r2 := vRolloutRequest("r2", has, value)
	vAssert(rc.RequestUsesRolloutGroup(r2) == got, "split: decision is a pure function of the cookie value")

	// monotone in the percentage
	if p < 100 {
		rcNext := NewRolloutController(p+1, allow)
		vAssert(vImplies(got, rcNext.RequestUsesRolloutGroup(r1)), "split: included at p stays included at p+1")
	}
	if p == 100 {
		vAssert(vImplies(vAnd(has, value != ""), got), "split: 100% includes every value")
	}
	if p == 0 && nAllow == 0 {
		// 0% includes only the values hashing to 0
		vAssert(vImplies(got, refFNV1a(value) == 0), "split: 0% includes (almost) nothing")
	}
	// share of the hash space matches the percentage
	share := (math.Floor(thr) + 1) / 4294967296.0
	d := share - float64(p)/100.0
	vAssert(d <= 1e-9 && d >= -1e-9, "split: included share of the hash space matches the percentage")

	vCover(got, "rollout chosen reachable")
	vCover(vAnd(has, !got), "cookie present but active chosen reachable")
}

// HarnessRolloutService: the service-level confinement of the split.
func HarnessRolloutService() {
	capV := vParam("valuecap", 4)
	value := vString("value", capV)
	vAssume(vCookieValueOK(value, capV))
	has := vBool("has_cookie")
	r := vRolloutRequest("r", has, value)
	active, rollout := &LoadBalancer{}, &LoadBalancer{}
	s := &Service{name: "s", active: active}

	// setting a split before rollout targets exist is rejected and changes nothing
	p := vIntRange("pct", 0, 100)
	vAssert(s.SetRolloutSplit(p, []string{value}) == ErrorRolloutTargetNotSet, "service: split without rollout targets is rejected")
	vAssert(s.rolloutController == nil, "service: rejected split changes nothing")
	vAssert(s.loadBalancerForRequest(r) == active, "service: no rollout targets => active")

	// rollout targets but no split => active
	s.UpdateLoadBalancer(rollout, TargetSlotRollout)
	vAssert(s.loadBalancerForRequest(r) == active, "service: no split set => active")

	// split set with the value allowlisted: cookie-bearing goes to rollout, others to active
	vAssert(s.SetRolloutSplit(p, []string{value}) == nil, "service: split accepted once rollout targets exist")
	lb := s.loadBalancerForRequest(r)
	vAssert(vIff(lb == rollout, vAnd(has, value != "")), "service: allowlisted cookie => rollout, no cookie => active")
	vAssert(vOr(lb == rollout, lb == active), "service: one of the two balancers")

	// redeploy (CopyWithOptions) keeps rollout targets and split
	c, err := s.CopyWithOptions(ServiceOptions{}, TargetOptions{})
	vAssert(err == nil, "service: copy succeeds")
	vAssert(vAnd(c.rollout == rollout, c.rolloutController == s.rolloutController), "service: redeploy keeps rollout targets and split")
	vAssert(c.loadBalancerForRequest(r) == lb, "service: redeploy keeps the decision")

	// rollout stop => active for everyone
	vAssert(s.StopRollout() == nil, "service: stop ok")
	vAssert(s.loadBalancerForRequest(r) == active, "service: after rollout stop => active")
	vCover(lb == rollout, "rollout reachable")
	vCover(lb == active, "active reachable")
}

// ---- abstraction: the hash as a free 32-bit value ----
//
// HarnessRolloutHash shows hashForValue(v) == FNV-1a(v) for every v within the cap; HarnessRolloutSplitAbs then
// replaces hashForValue by a free uint32 (asserting it is called with exactly the cookie value), which makes
// every threshold boundary reachable for the solver without inverting the hash.

var vHashFree uint32
var vHashArg string
var vHashCalls int

//verif:stub (*github.com/basecamp/kamal-proxy/internal/server.RolloutController).hashForValue harness=HarnessRolloutSplitAbs,HarnessRolloutRestart,HarnessRolloutValueVerbatim
func stubHashForValue(rc *RolloutController, value string) uint32 {
	vHashCalls++
	vAssert(value == vHashArg, "split: the hash is taken of exactly the cookie value")
	return vHashFree
}

func HarnessRolloutHash() {
	capV := vParam("valuecap", 8)
	value := vString("value", capV)
	rc := NewRolloutController(50, nil)
	vAssert(rc.hashForValue(value) == refFNV1a(value), "hash: hashForValue == FNV-1a(value)")
	vCover(len(value) == capV, "full-length value reachable")
}

func HarnessRolloutSplitAbs() {
	capV := vParam("valuecap", 8)
	p := vChoose("pct", 101)
	value := vString("value", capV)
	vAssume(vCookieValueOK(value, capV))
	has := vBool("has_cookie")
	nAllow := vChoose("n_allow", 3)
	allow := []string{}
	for i := 0; i < nAllow; i++ {
		allow = append(allow, vString("allow"+string(rune('0'+i)), vParam("allowcap", 3)))
	}
	vHashFree = vUint32("hash")
	vHashArg = value

	rc := NewRolloutController(p, allow)
	r1 := vRolloutRequest("r1", has, value)
	got := rc.RequestUsesRolloutGroup(r1)

	inAllow := false
	for _, a := range allow {
		inAllow = vOr(inAllow, a == value)
	}
	// (reference threshold computed here, not read back from the controller)
	thr := float64(uint32(0xFFFFFFFF)) * (float64(p) / 100.0)
	want := vAnd(has, vAnd(value != "", vOr(inAllow, float64(vHashFree) <= thr)))
	vAssert(got == want, "split: decision == cookie present and (allowlisted or hash within percentage)")
	// exact integer form of the threshold: hash <= floor(maxUint32 * p / 100) computed in integers
	// (0xFFFFFFFF*p/100 is exact in float64 up to rounding; the integer bound brackets it)
	lo := uint32(uint64(0xFFFFFFFF) * uint64(p) / 100)
	vAssert(vImplies(vAnd(has, vAnd(value != "", vAnd(!inAllow, vHashFree < lo))), got), "split: every hash below p% of the hash space is included")
	if p < 100 {
		vAssert(vImplies(vAnd(got, !inAllow), uint64(vHashFree) <= uint64(lo)+1), "split: no hash above p% of the hash space is included")
	}

	r2 := vRolloutRequest("r2", has, value)
	vAssert(rc.RequestUsesRolloutGroup(r2) == got, "split: decision is a pure function of the cookie value")
	if p < 100 {
		rcNext := NewRolloutController(p+1, allow)
		vAssert(vImplies(got, rcNext.RequestUsesRolloutGroup(r1)), "split: included at p stays included at p+1")
	}
	if p == 100 {
		vAssert(vImplies(vAnd(has, value != ""), got), "split: 100% includes every value")
	}
	share := (math.Floor(thr) + 1) / 4294967296.0
	d := share - float64(p)/100.0
	vAssert(d <= 1e-9 && d >= -1e-9, "split: included share of the hash space matches the percentage")
	vCover(got, "rollout chosen reachable")
	vCover(vAnd(has, !got), "cookie present but active chosen reachable")
	vCover(vHashCalls > 0, "hash consulted")
}

// HarnessRolloutRestart: the split survives a restart: for every percentage and allowlist the proxy restored from the
// state file sends exactly the same cookie values to the rollout targets as the one that wrote it (hash abstracted
// as in SplitAbs), and a rollout without a split stays without one.
func HarnessRolloutRestart() {
	vSortMode = 0
	vSnapshotReal = true
	capV := vParam("valuecap", 4)
	value := vString("value", capV)
	vAssume(vCookieValueOK(value, capV))
	has := vBool("has_cookie")
	vHashFree = vUint32("hash")
	vHashArg = value
	topts := TargetOptions{HealthCheckConfig: HealthCheckConfig{Path: "/up", Interval: 1000, Timeout: 1000}}
	orig := NewRouter("/state")
	svc, err := NewService("svc", ServiceOptions{Hosts: []string{"h"}}, topts)
	vAssert(err == nil, "rollout restart: service builds")
	svc.active = vDeployedBalancer([]string{"a0:80"}, topts)
	svc.rollout = vDeployedBalancer([]string{"r0:80"}, topts)
	withSplit := vChoose("with_split", 2) == 1
	p := vChoose("pct", 101)
	allow := []string{}
	if vChoose("n_allow", 2) == 1 {
		allow = append(allow, vString("allow0", vParam("allowcap", 3)))
	}
	if withSplit {
		vAssert(svc.SetRolloutSplit(p, allow) == nil, "rollout restart: split accepted")
	}
	vAssert(vInstall(orig, svc), "rollout restart: install")
	rest := NewRouter("/state")
	vAssert(rest.RestoreLastSavedState() == nil, "rollout restart: the state file restores")
	rsvc := rest.services.Get("svc")
	vAssert(rsvc != nil && rsvc.rollout != nil, "rollout restart: the service and its rollout targets are restored")
	if rsvc == nil || rsvc.rollout == nil {
		return
	}
	r := vRolloutRequest("r", has, value)
	before := svc.loadBalancerForRequest(r) == svc.rollout
	after := rsvc.loadBalancerForRequest(r) == rsvc.rollout
	vAssert(before == after, "rollout restart: the same requests go to the rollout targets before and after a restart")
	if !withSplit {
		vAssert(!after, "rollout restart: no split before => none after")
	}
	vCover(vAnd(withSplit, after), "rollout chosen after restart reachable")
	vCover(vAnd(withSplit, vAnd(has, !after)), "active chosen after restart reachable")
}

// HarnessRolloutValueVerbatim: the value that is matched against the allowlist and hashed is the cookie's value, byte
// for byte (no decoding, trimming or case folding), for every cookie octet sequence within the cap.
func HarnessRolloutValueVerbatim() {
	capV := vParam("valuecap", 3)
	value := vString("value", capV)
	vAssume(vCookieValueOK(value, capV))
	vAssume(value != "")
	vHashFree = vUint32("hash")
	vHashArg = value
	rc := NewRolloutController(50, nil)
	r := vRolloutRequest("r", true, value)
	got := rc.RequestUsesRolloutGroup(r)
	vAssert(vHashCalls == 1, "verbatim: the percentage decision hashes the cookie value (exactly once)")
	vAssert(got == (float64(vHashFree) <= float64(uint32(0xFFFFFFFF))*0.5), "verbatim: decision == hash of the verbatim value within the percentage")
	// allowlisted verbatim value is included whatever its hash
	rcA := NewRolloutController(0, []string{value})
	vAssert(rcA.RequestUsesRolloutGroup(r), "verbatim: an allowlist entry equal to the cookie value matches it")
	vCover(got, "included reachable")
	vCover(!got, "excluded reachable")
}
