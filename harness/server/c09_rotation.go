package server

import (
	"context"
	"net/http"
	"net/url"
)

// ---- C09: healthy-only, fair rotation ----

func vBareTarget(name string, state TargetState) *Target {
	return &Target{targetURL: &url.URL{Scheme: "http", Host: name}, state: state, inflight: inflightMap{}, becameHealthy: make(chan bool)}
}

func vPlainRequest(path string) *http.Request {
	return &http.Request{Method: "GET", URL: &url.URL{Path: path}, Header: http.Header{}, Host: "example.com"}
}

func HarnessRotation() {
	K := vParam("k", 3)
	k := 1 + vChoose("k", K)
	lb := &LoadBalancer{healthy: TargetList{}, all: TargetList{}}
	for i := 0; i < k; i++ {
		t := vBareTarget("t"+vItoa(i), TargetStateHealthy)
		lb.all = append(lb.all, t)
	}
	// an unhealthy target somewhere in `all` that must never be chosen
	var bad *Target
	if vChoose("with_unhealthy", 2) == 1 {
		bad = vBareTarget("bad", TargetStateUnhealthy)
		pos := vChoose("badpos", k+1)
		all := TargetList{}
		all = append(all, lb.all[:pos]...)
		all = append(all, bad)
		all = append(all, lb.all[pos:]...)
		lb.all = all
	}
	lb.updateHealthyTargets()
	vAssert(len(lb.healthy) == k, "rotation: rotation holds exactly the healthy targets")
	idx := vInt("index")
	vAssume(idx >= 0 && idx < 1<<31) // the cursor is only ever assigned a remainder modulo the rotation size
	lb.index = idx

	n := 2*k + 1
	seq := []*Target{}
	for i := 0; i < n; i++ {
		t, req, err := lb.claimTarget(vPlainRequest("/"))
		vAssert(err == nil && t != nil && req != nil, "rotation: a healthy target is claimed")
		vAssert(t != bad, "rotation: an unhealthy target is never chosen")
		in := false
		for _, h := range lb.healthy {
			if h == t {
				in = true
			}
		}
		vAssert(in, "rotation: the chosen target is in the rotation")
		seq = append(seq, t)
	}
	// any k consecutive requests hit k distinct targets; period k
	for i := 0; i+k <= n; i++ {
		for a := i; a < i+k; a++ {
			for b := a + 1; b < i+k; b++ {
				vAssert(seq[a] != seq[b], "rotation: k consecutive requests go to k distinct targets")
			}
		}
	}
	for i := 0; i+k < n; i++ {
		vAssert(seq[i] == seq[i+k], "rotation: strict rotation with period k")
	}
	// direct count: floor(n/k) or ceil(n/k) each
	for _, h := range lb.healthy {
		c := 0
		for _, s := range seq {
			if s == h {
				c++
			}
		}
		vAssert(c == n/k || c == (n+k-1)/k, "rotation: each healthy target gets floor(n/k) or ceil(n/k) of n requests")
	}
	vCover(k == K, "full rotation size reachable")
}

func HarnessNoHealthy() {
	k := vChoose("k", vParam("k", 2)+1)
	lb := &LoadBalancer{healthy: TargetList{}, all: TargetList{}}
	for i := 0; i < k; i++ {
		st := TargetStateUnhealthy
		if vChoose("st"+vItoa(i), 2) == 1 {
			st = TargetStateAdding
		}
		lb.all = append(lb.all, vBareTarget("t"+vItoa(i), st))
	}
	lb.updateHealthyTargets()
	lb.index = vIntRange("index", 0, 1000)
	w := vNewRecorder()
	lb.ServeHTTP(w, vPlainRequest("/"))
	vAssert(w.status == 503, "nohealthy: no healthy target => 503")
	for _, t := range lb.all {
		vAssert(len(t.inflight) == 0, "nohealthy: nothing is sent to a failing target")
	}
	vCover(k > 0, "all-unhealthy reachable")
}

// HarnessHealthExclusion: arbitrary per-target probe outcome sequences after deployment.
func HarnessHealthExclusion() {
	k := vParam("k", 2)
	L := vParam("steps", 3)
	lb := &LoadBalancer{healthy: TargetList{}, all: TargetList{}}
	ref := []TargetState{}
	closed := []bool{}
	for i := 0; i < k; i++ {
		t := vBareTarget("t"+vItoa(i), TargetStateAdding)
		t.stateConsumer = lb
		lb.all = append(lb.all, t)
		ref = append(ref, TargetStateAdding)
		closed = append(closed, false)
	}
	for step := 0; step < L; step++ {
		i := vChoose("who"+vItoa(step), k)
		ok := vChoose("ok"+vItoa(step), 2) == 1
		t := lb.all[i]
		t.HealthCheckCompleted(ok)
		// reference state machine
		if ok {
			ref[i] = TargetStateHealthy
			closed[i] = true
		} else if ref[i] == TargetStateHealthy {
			ref[i] = TargetStateUnhealthy
		}
		vAssert(t.State() == ref[i], "health: target state follows its latest probes (adding leaves only on success)")
		// becameHealthy closed exactly on the first success
		isClosed := false
		select {
		case <-t.becameHealthy:
			isClosed = true
		default:
		}
		vAssert(isClosed == closed[i], "health: 'became healthy' is signalled exactly by the first successful probe")
		// rotation == targets whose latest completed probe succeeded, in `all` order
		want := TargetList{}
		for j, x := range lb.all {
			if ref[j] == TargetStateHealthy {
				want = append(want, x)
			}
		}
		vAssert(len(lb.healthy) == len(want), "health: rotation holds exactly the targets whose latest probe succeeded")
		for j := range want {
			if j < len(lb.healthy) {
				vAssert(lb.healthy[j] == want[j], "health: rotation holds exactly the targets whose latest probe succeeded")
			}
		}
		// a request now is served only by such a target, or 503
		got, _, err := lb.claimTarget(vPlainRequest("/"))
		if len(want) == 0 {
			vAssert(err == ErrorNoHealthyTargets, "health: no healthy target => no target claimed")
		} else {
			vAssert(err == nil, "health: healthy target available => claimed")
			for j, x := range lb.all {
				if x == got {
					vAssert(ref[j] == TargetStateHealthy, "health: a target whose latest probe failed receives no new request")
				}
			}
		}
	}
	vCover(ref[0] == TargetStateUnhealthy, "healthy->unhealthy reachable")
	vCover(len(lb.healthy) == k, "all healthy reachable")
}

// HarnessHealthRace (T2): probe completions of different targets overlap; once all have been delivered the rotation
// holds exactly the targets whose latest probe succeeded, for every interleaving.
func HarnessHealthRace() {
	vT2(vParam("preemptions", 2), 2)
	k := vParam("k", 2)
	lb := &LoadBalancer{healthy: TargetList{}, all: TargetList{}}
	for i := 0; i < k; i++ {
		st := TargetStateHealthy
		if vChoose("st"+vItoa(i), 2) == 1 {
			st = TargetStateUnhealthy
		}
		t := vBareTarget("t"+vItoa(i), st)
		t.stateConsumer = lb
		lb.all = append(lb.all, t)
	}
	lb.updateHealthyTargets()
	done := 0
	for i := 0; i < k; i++ {
		t := lb.all[i]
		ok := vChoose("ok"+vItoa(i), 2) == 1
		go func() {
			t.HealthCheckCompleted(ok)
			done++
		}()
	}
	vBlockUntil(func() bool { return done == k })
	want := TargetList{}
	for _, t := range lb.all {
		if t.State() == TargetStateHealthy {
			want = append(want, t)
		}
	}
	vAssert(len(lb.healthy) == len(want), "healthrace: after overlapping probe completions the rotation holds exactly the healthy targets")
	for j := range want {
		if j < len(lb.healthy) {
			vAssert(lb.healthy[j] == want[j], "healthrace: after overlapping probe completions the rotation holds exactly the healthy targets")
		}
	}
	got, _, err := lb.claimTarget(vPlainRequest("/"))
	if len(want) > 0 {
		vAssert(err == nil && got.State() == TargetStateHealthy, "healthrace: only a healthy target is claimed")
	} else {
		vAssert(err == ErrorNoHealthyTargets, "healthrace: no healthy target => none claimed")
	}
	vCover(len(want) == 1, "one healthy reachable")
}

// HarnessClaimRace (T2): overlapping requests still rotate strictly: k concurrent claims on k healthy targets hit k
// distinct targets, for every interleaving within the bound.
func HarnessClaimRace() {
	vT2(vParam("preemptions", 2), 2)
	k := vParam("k", 2)
	lb := &LoadBalancer{healthy: TargetList{}, all: TargetList{}}
	for i := 0; i < k; i++ {
		t := vBareTarget("t"+vItoa(i), TargetStateHealthy)
		t.stateConsumer = lb
		lb.all = append(lb.all, t)
	}
	lb.updateHealthyTargets()
	lb.index = vIntRange("index", 0, 7)
	got := make([]*Target, k)
	done := 0
	for i := 0; i < k; i++ {
		i := i
		go func() {
			t, _, err := lb.claimTarget(vPlainRequest("/"))
			vAssert(err == nil, "claimrace: a healthy target is claimed")
			got[i] = t
			done++
		}()
	}
	vBlockUntil(func() bool { return done == k })
	for a := 0; a < k; a++ {
		for b := a + 1; b < k; b++ {
			vAssert(got[a] != got[b], "claimrace: k overlapping requests go to k distinct targets")
		}
	}
	vAssert(vRaceCount() == 0, "claimrace: no data race")
	vCover(true, "claim race explored")
}

// ---- the probe loop itself (T2): results are applied in the order the probes were issued ----

var vProbeResultsApplied int

//verif:stub (*github.com/basecamp/kamal-proxy/internal/server.Target).HealthCheckCompleted harness=HarnessProbeLoop
func stubHealthCheckCompletedCounted(t *Target, success bool) {
	t.HealthCheckCompleted(success)
	vProbeResultsApplied++
}

// HarnessProbeLoop: one target probed by the real health-check loop (interval, probe timeout and every probe's
// latency symbolic, outcomes 2xx / failure); at a moment when no probe result is in transit a request is claimed: it
// gets the target exactly when the most recently issued of the completed probes succeeded.
func HarnessProbeLoop() {
	vT2(vParam("preemptions", 0), vParam("firings", 12))
	interval := vDur("interval")
	vAssume(interval > 0)
	ptimeout := vDur("probe_timeout")
	vAssume(ptimeout > 0)
	topts := TargetOptions{HealthCheckConfig: HealthCheckConfig{Path: "/up", Interval: interval, Timeout: ptimeout}}
	P := vParam("probes", 3)
	sc := &vProbeScript{parkAfter: true}
	for p := 0; p < P; p++ {
		tag := "p" + vItoa(p)
		status := 500
		if vBool(tag + "_ok") {
			status = 200
		}
		sc.outcomes = append(sc.outcomes, vProbeOutcome{kind: vProbeStatus, status: status, latency: vDur(tag + "_lat")})
	}
	vProbeScripts["t0:80"] = sc
	tl, err := NewTargetList([]string{"t0:80"}, topts)
	vAssert(err == nil, "probe loop: target builds")
	lb := NewLoadBalancer(tl)
	completed := func() int {
		n := 0
		for _, e := range vTrace {
			if e.kind == "probe_end" {
				n++
			}
		}
		return n
	}
	k := vIntRange("claim_after", 0, 2*P)
	vBlockUntil(func() bool { return (len(vTrace) >= k || vProbeParked > 0) && completed() == vProbeResultsApplied })
	// (the claim and the instant the oracle refers to are one step: nothing may be scheduled in between)
	vAtomicBegin()
	seen := len(vTrace)
	_, _, cerr := lb.claimTarget(vPlainRequest("/"))
	vAtomicEnd()
	vNote(vTraceString())
	latest, ok := -1, false
	for i, e := range vTrace {
		if i >= seen {
			break
		}
		if e.kind == "probe_end" && e.req > latest {
			latest, ok = e.req, e.ok
		}
	}
	if latest >= 0 {
		vAssert((cerr == nil) == ok, "probe loop: a target receives requests exactly when its latest probe succeeded")
	} else {
		vAssert(cerr == ErrorNoHealthyTargets, "probe loop: a target that has not answered a probe yet receives nothing")
	}
	vCover(latest >= 1 && ok, "healthy after a later probe reachable")
	vCover(latest >= 1 && !ok, "unhealthy after a later probe reachable")
}

// HarnessHealthDrain: probe results interleaved with drain windows (the real Target.Drain, parked on an in-flight
// request for as long as the window lasts): whenever no drain is in progress the rotation holds exactly the targets
// whose latest probe succeeded - "a target whose latest probe failed receives no new requests ... and one that
// recovers is used again", also when probes complete, or other targets change state, while a target is being drained.
func HarnessHealthDrain() {
	vT2(0, 4)
	k := vParam("k", 2)
	L := vParam("steps", 4)
	lb := &LoadBalancer{healthy: TargetList{}, all: TargetList{}}
	latestOK := []bool{}
	everOK := []bool{}
	draining := []bool{}
	release := []context.CancelFunc{}
	drained := 0
	for i := 0; i < k; i++ {
		t := vBareTarget("t"+vItoa(i), TargetStateAdding)
		t.stateConsumer = lb
		lb.all = append(lb.all, t)
		latestOK = append(latestOK, false)
		everOK = append(everOK, false)
		draining = append(draining, false)
		release = append(release, nil)
	}
	sawDrainFailure := false
	// (the moment a target enters the draining state is observed at the store itself)
	enteredDraining := 0
	vWatchStore("server.Target.state", func(obj any) {
		if obj.(*Target).state == TargetStateDraining {
			enteredDraining++
		}
	})
	for step := 0; step < L; step++ {
		i := vChoose("who"+vItoa(step), k)
		t := lb.all[i]
		switch vChoose("what"+vItoa(step), 3) {
		case 0, 1:
			ok := vChoose("ok"+vItoa(step), 2) == 1
			t.HealthCheckCompleted(ok)
			latestOK[i] = ok
			everOK[i] = everOK[i] || ok
			if draining[i] && !ok {
				sawDrainFailure = true
			}
		case 2:
			if draining[i] {
				// the in-flight request finishes: the drain ends
				before := drained
				release[i]()
				vBlockUntil(func() bool { return drained > before })
				draining[i] = false
			} else {
				// a drain begins (pause / stop / redeploy) and waits for a request that is in flight on the target
				ctx, cancel := context.WithCancel(context.Background())
				req, err := t.StartRequest(vPlainRequest("/").WithContext(ctx))
				vAssert(err == nil, "health drain: request admitted before the drain")
				release[i] = func() { t.endInflightRequest(req); cancel() }
				seen := enteredDraining
				go func() { t.Drain(1 << 40); drained++ }()
				vBlockUntil(func() bool { return enteredDraining > seen })
				draining[i] = true
			}
		}
		anyDraining := false
		for j := range lb.all {
			anyDraining = anyDraining || draining[j]
		}
		for j, x := range lb.all {
			in := false
			for _, h := range lb.healthy {
				in = in || h == x
			}
			// (a target leaves the adding state only through its first success)
			if !draining[j] && latestOK[j] {
				vAssert(in, "health: a target that is not being drained and whose latest probe succeeded is in the rotation")
			}
			if !anyDraining && everOK[j] && !latestOK[j] {
				vAssert(!in, "health: a target whose latest probe failed is not in the rotation once no drain is in progress")
			}
		}
	}
	vCover(sawDrainFailure, "probe failing during a drain reachable")
}
