package server

import (
	"net/http"
	"time"
)

// ---- C01: deploy gate (T2) ----

func vNewTargetName(i int) string { return "new" + vItoa(i) + ":80" }

func vIsNewTarget(name string, n int) bool {
	for i := 0; i < n; i++ {
		if name == vNewTargetName(i) {
			return true
		}
	}
	return false
}

// vInstallOldService installs service "svc" on host "h" with one healthy target "old:80" (no probe loop of its own).
func vInstallOldService(router *Router, topts TargetOptions) (*Service, *LoadBalancer) {
	svc, err := NewService("svc", ServiceOptions{Hosts: []string{"h"}}, topts)
	vAssert(err == nil, "setup: old service builds")
	t, err := NewTarget("old:80", topts)
	vAssert(err == nil, "setup: old target builds")
	t.state = TargetStateHealthy
	lb := &LoadBalancer{healthy: TargetList{}, all: TargetList{t}}
	t.stateConsumer = lb
	lb.updateHealthyTargets()
	svc.active = lb
	router.services.Set(svc)
	return svc, lb
}

func vBoundedDuration(name string, lo, hi int64) time.Duration {
	d := vDuration(name)
	vAssume(int64(d) >= lo && int64(d) < hi)
	return d
}

// vDur: an arbitrary duration in [0, 2^20) (a narrow symbolic value keeps the time arithmetic cheap for the solver;
// only the relative order of instants matters, not their magnitude).
func vDur(name string) time.Duration { return vDurationN(name, 20) }

func HarnessDeployGate() {
	vT2(vParam("preemptions", 1), vParam("firings", 8))
	vSortMode = 0
	N := 1 + vChoose("ntargets", vParam("targets", 1))
	P := vParam("probes", 2)
	C := vParam("clients", 1)
	router := NewRouter("/state")
	interval := vDur("interval")
	vAssume(interval > 0)
	ptimeout := vDur("probe_timeout")
	deployTimeout := vDur("deploy_timeout")
	drainTimeout := vDur("drain_timeout")
	topts := TargetOptions{HealthCheckConfig: HealthCheckConfig{Path: "/up", Interval: interval, Timeout: ptimeout}}
	var oldSvc *Service
	var oldLB *LoadBalancer
	if vChoose("has_old", 2) == 1 {
		oldSvc, oldLB = vInstallOldService(router, topts)
	}
	names := []string{}
	for i := 0; i < N; i++ {
		name := vNewTargetName(i)
		names = append(names, name)
		sc := &vProbeScript{parkAfter: true}
		for p := 0; p < P; p++ {
			tag := "t" + vItoa(i) + "p" + vItoa(p)
			// refused or an arbitrary status, decided lazily (only on paths where this probe is actually issued)
			o := vProbeOutcome{kind: vProbeStatus, refused: vBool(tag + "_refused"), status: vIntRange(tag+"_status", 100, 599), latency: vDur(tag + "_lat")}
			sc.outcomes = append(sc.outcomes, o)
		}
		vProbeScripts[name] = sc
	}
	root := vRootChain(router)
	done := 0
	for c := 0; c < C; c++ {
		c := c
		arrival := vIntRange("arrival"+vItoa(c), 0, vParam("arrival_points", 8)) // placed lazily relative to the emitted events
		vProxyPlans[c] = &vProxyPlan{service: 0}
		go func() {
			vArriveAfter(arrival)
			vDoRequest(root, c, "h", "/")
			done++
		}()
	}
	start := vNow()
	err := router.DeployService("svc", names, ServiceOptions{Hosts: []string{"h"}}, topts, deployTimeout, drainTimeout)
	vEmit(vEvent{kind: "cmd_return", ok: err == nil})
	vCmdReturned = true
	ret := vNow()
	vBlockUntil(func() bool { return done == C })

	// ---- monitors over the trace ----
	deadline := start + int64(deployTimeout)
	// first successful probe per target
	firstOK := []int64{}
	firstOKIdx := []int{}
	for i := 0; i < N; i++ {
		at, idx := int64(-1), -1
		for k, e := range vTrace {
			if e.kind == "probe_end" && e.target == names[i] && e.ok && idx < 0 {
				at, idx = e.at, k
			}
		}
		firstOK = append(firstOK, at)
		firstOKIdx = append(firstOKIdx, idx)
	}
	for k, e := range vTrace {
		if e.kind == "forward_begin" && vIsNewTarget(e.target, N) {
			for i := 0; i < N; i++ {
				vAssert(firstOKIdx[i] >= 0 && firstOKIdx[i] < k, "gate: traffic reaches a new target only after every new target answered a probe with 2xx")
			}
			vAssert(err == nil || k > len(vTrace), "gate: a failed deploy never sends a client request to a new target")
		}
		if e.kind == "probe_end" && e.ok {
			vAssert(e.status >= 200 && e.status <= 299, "gate: only 2xx counts as a successful probe")
		}
	}
	if err != nil {
		for _, e := range vTrace {
			vAssert(!(e.kind == "forward_begin" && vIsNewTarget(e.target, N)), "gate: a failed deploy never sends a client request to a new target")
		}
		vAssert(router.services.Get("svc") == oldSvc, "gate: a failed deploy leaves the service as it was (or absent)")
		if oldSvc != nil {
			vAssert(oldSvc.active == oldLB, "gate: a failed deploy keeps the old targets")
		}
		for c := 0; c < C; c++ {
			res := vClientResults[c]
			if oldSvc != nil {
				vAssert(res.status == 200 && res.body == "FROM[old:80]", "gate: the service keeps answering from the targets it had")
			} else {
				vAssert(res.status == 404, "gate: a new service that failed to deploy stays absent")
			}
		}
	}
	// success iff every target had a successful probe in time (ties either way)
	allBefore, someNever := true, false
	for i := 0; i < N; i++ {
		if !(firstOK[i] >= 0 && firstOK[i] < deadline) {
			allBefore = false
		}
		if !(firstOK[i] >= 0 && firstOK[i] <= deadline) {
			someNever = true
		}
	}
	if allBefore {
		vAssert(err == nil, "gate: all targets healthy within the deploy timeout => deploy succeeds")
	}
	if someNever {
		vAssert(err != nil, "gate: a target without a successful probe within the deploy timeout => deploy fails")
	}
	vAssert(ret <= deadline+int64(drainTimeout), "gate: deploy returns within deploy-timeout + drain-timeout")
	vCover(err == nil, "successful deploy reachable")
	vCover(err != nil, "failed deploy reachable")
	vCover(err == nil && len(vTrace) > 0 && vClientResults[0].body == "FROM[new0:80]", "request served by a new target reachable")
	_ = http.StatusOK
}
