package server

import (
	"context"
	"net/http"
	"net/url"
	"time"
)

// ---- C01: deploy gate (T2) ----

func vNewTargetName(i int) string { return "new" + vItoa(i) + ":80" }

func vIsNewTarget(name string, n int) bool {
	for i := 0; i < n; i++ {
		if name == vNewTargetName(i) {
			return true
		}
	}
	return false
}

// vInstallOldService installs service "svc" on host "h" with one healthy target "old:80" (no probe loop of its own).
func vInstallOldService(router *Router, topts TargetOptions) (*Service, *LoadBalancer) {
	svc, err := NewService("svc", ServiceOptions{Hosts: []string{"h"}}, topts)
	vAssert(err == nil, "setup: old service builds")
	t, err := NewTarget("old:80", topts)
	vAssert(err == nil, "setup: old target builds")
	t.state = TargetStateHealthy
	lb := &LoadBalancer{healthy: TargetList{}, all: TargetList{t}}
	t.stateConsumer = lb
	lb.updateHealthyTargets()
	svc.active = lb
	router.services.Set(svc)
	return svc, lb
}

func vBoundedDuration(name string, lo, hi int64) time.Duration {
	d := vDuration(name)
	vAssume(int64(d) >= lo && int64(d) < hi)
	return d
}

// vDur: an arbitrary duration in [0, 2^20) (a narrow symbolic value keeps the time arithmetic cheap for the solver;
// only the relative order of instants matters, not their magnitude).
func vDur(name string) time.Duration { return vDurationN(name, 20) }

func HarnessDeployGate() {
	vT2(vParam("preemptions", 1), vParam("firings", 8))
	vSortMode = 0
	N := 1 + vChoose("ntargets", vParam("targets", 1))
	P := vParam("probes", 2)
	C := vParam("clients", 1)
	router := NewRouter("/state")
	interval := vDur("interval")
	vAssume(interval > 0)
	ptimeout := vDur("probe_timeout")
	deployTimeout := vDur("deploy_timeout")
	drainTimeout := vDur("drain_timeout")
	topts := TargetOptions{HealthCheckConfig: HealthCheckConfig{Path: "/up", Interval: interval, Timeout: ptimeout}}
	var oldSvc *Service
	var oldLB *LoadBalancer
	if vChoose("has_old", 2) == 1 {
		oldSvc, oldLB = vInstallOldService(router, topts)
	}
	names := []string{}
	for i := 0; i < N; i++ {
		name := vNewTargetName(i)
		names = append(names, name)
		sc := &vProbeScript{parkAfter: true}
		for p := 0; p < P; p++ {
			tag := "t" + vItoa(i) + "p" + vItoa(p)
			// refused or an arbitrary status, decided lazily (only on paths where this probe is actually issued)
			o := vProbeOutcome{kind: vProbeStatus, refused: vBool(tag + "_refused"), status: vIntRange(tag+"_status", 100, 599), latency: vDur(tag + "_lat")}
			sc.outcomes = append(sc.outcomes, o)
		}
		vProbeScripts[name] = sc
	}
	root := vRootChain(router)
	done := 0
	for c := 0; c < C; c++ {
		c := c
		arrival := vIntRange("arrival"+vItoa(c), 0, vParam("arrival_points", 8)) // placed lazily relative to the emitted events
		vProxyPlans[c] = &vProxyPlan{service: 0}
		go func() {
			vArriveAfter(arrival)
			vDoRequest(root, c, "h", "/")
			done++
		}()
	}
	start := vNow()
	err := router.DeployService("svc", names, ServiceOptions{Hosts: []string{"h"}}, topts, deployTimeout, drainTimeout)
	vEmit(vEvent{kind: "cmd_return", ok: err == nil})
	vCmdReturned = true
	ret := vNow()
	vBlockUntil(func() bool { return done == C })

	// ---- monitors over the trace ----
	deadline := start + int64(deployTimeout)
	// first successful probe per target
	firstOK := []int64{}
	firstOKIdx := []int{}
	for i := 0; i < N; i++ {
		at, idx := int64(-1), -1
		for k, e := range vTrace {
			if e.kind == "probe_end" && e.target == names[i] && e.ok && idx < 0 {
				at, idx = e.at, k
			}
		}
		firstOK = append(firstOK, at)
		firstOKIdx = append(firstOKIdx, idx)
	}
	for k, e := range vTrace {
		if e.kind == "forward_begin" && vIsNewTarget(e.target, N) {
			for i := 0; i < N; i++ {
				vAssert(firstOKIdx[i] >= 0 && firstOKIdx[i] < k, "gate: traffic reaches a new target only after every new target answered a probe with 2xx")
			}
			vAssert(err == nil || k > len(vTrace), "gate: a failed deploy never sends a client request to a new target")
		}
		if e.kind == "probe_end" && e.ok {
			vAssert(e.status >= 200 && e.status <= 299, "gate: only 2xx counts as a successful probe")
		}
	}
	if err != nil {
		for _, e := range vTrace {
			vAssert(!(e.kind == "forward_begin" && vIsNewTarget(e.target, N)), "gate: a failed deploy never sends a client request to a new target")
		}
		vAssert(router.services.Get("svc") == oldSvc, "gate: a failed deploy leaves the service as it was (or absent)")
		if oldSvc != nil {
			vAssert(oldSvc.active == oldLB, "gate: a failed deploy keeps the old targets")
		}
		for c := 0; c < C; c++ {
			res := vClientResults[c]
			if oldSvc != nil {
				vAssert(res.status == 200 && res.body == "FROM[old:80]", "gate: the service keeps answering from the targets it had")
			} else {
				vAssert(res.status == 404, "gate: a new service that failed to deploy stays absent")
			}
		}
	}
	// success iff every target had a successful probe in time (ties either way)
	allBefore, someNever := true, false
	for i := 0; i < N; i++ {
		if !(firstOK[i] >= 0 && firstOK[i] < deadline) {
			allBefore = false
		}
		if !(firstOK[i] >= 0 && firstOK[i] <= deadline) {
			someNever = true
		}
	}
	if allBefore {
		vAssert(err == nil, "gate: all targets healthy within the deploy timeout => deploy succeeds")
	}
	if someNever {
		vAssert(err != nil, "gate: a target without a successful probe within the deploy timeout => deploy fails")
	}
	vAssert(ret <= deadline+int64(drainTimeout), "gate: deploy returns within deploy-timeout + drain-timeout")
	vCover(err == nil, "successful deploy reachable")
	vCover(err != nil, "failed deploy reachable")
	vCover(C == 0 || (err == nil && len(vTrace) > 0 && vClientResults[0].body == "FROM[new0:80]"), "request served by a new target reachable")
	_ = http.StatusOK
}

// HarnessRolloutDeployGate: the same gate for `rollout deploy`, which works on the live service object: opted-in clients
// keep being served by the previous rollout targets (or the active ones) until every new rollout target is healthy.
func HarnessRolloutDeployGate() {
	vT2(vParam("preemptions", 0), vParam("firings", 12))
	vSortMode = 0
	router := NewRouter("/state")
	interval := vDur("interval")
	vAssume(interval > 0)
	ptimeout := vDur("probe_timeout")
	deployTimeout := vDur("deploy_timeout")
	drainTimeout := vDur("drain_timeout")
	topts := TargetOptions{HealthCheckConfig: HealthCheckConfig{Path: "/up", Interval: interval, Timeout: ptimeout}}
	svc, _ := vInstallOldService(router, topts)
	var prevRollout *LoadBalancer
	if vChoose("has_previous_rollout", 2) == 1 {
		t, err := NewTarget("rold:80", topts)
		vAssert(err == nil, "setup: rollout target builds")
		t.state = TargetStateHealthy
		prevRollout = &LoadBalancer{healthy: TargetList{}, all: TargetList{t}}
		t.stateConsumer = prevRollout
		prevRollout.updateHealthyTargets()
		svc.rollout = prevRollout
	}
	svc.rolloutController = NewRolloutController(100, nil) // every cookie-bearing request opts in
	P := vParam("probes", 2)
	sc := &vProbeScript{parkAfter: true}
	for p := 0; p < P; p++ {
		tag := "p" + vItoa(p)
		sc.outcomes = append(sc.outcomes, vProbeOutcome{kind: vProbeStatus, refused: vBool(tag + "_refused"), status: vIntRange(tag+"_status", 100, 599), latency: vDur(tag + "_lat")})
	}
	vProbeScripts["new0:80"] = sc
	root := vRootChain(router)
	done := false
	arrival := vIntRange("arrival", 0, vParam("arrival_points", 8))
	// the opted-in request takes a while at its target, but less than the drain timeout: if the previous rollout targets
	// are drained while it is in flight it still completes
	svcTime := vDur("service_time")
	vAssume(svcTime < drainTimeout || svcTime == 0)
	vProxyPlans[0] = &vProxyPlan{service: svcTime}
	go func() {
		vArriveAfter(arrival)
		req := &http.Request{Method: "GET", URL: &url.URL{Path: "/"}, Header: http.Header{"Cookie": []string{RolloutCookieName + "=x"}}, Host: "h", RemoteAddr: "1.2.3.4:5"}
		req = req.WithContext(context.WithValue(context.Background(), vReqKey, 0))
		w := vNewRecorder()
		vEmit(vEvent{kind: "arrive", req: 0})
		root.ServeHTTP(w, req)
		w.finish()
		vClientResults[0] = &vClientResult{done: true, status: w.status, body: string(w.body), at: vNow()}
		vEmit(vEvent{kind: "respond", req: 0, status: w.status})
		done = true
	}()
	start := vNow()
	err := router.SetRolloutTargets("svc", []string{"new0:80"}, deployTimeout, drainTimeout)
	vEmit(vEvent{kind: "cmd_return", ok: err == nil})
	vCmdReturned = true
	ret := vNow()
	vBlockUntil(func() bool { return done })
	vNote(vTraceString())
	okIdx := -1
	for k, e := range vTrace {
		if e.kind == "probe_end" && e.target == "new0:80" && e.ok && okIdx < 0 {
			okIdx = k
		}
	}
	for k, e := range vTrace {
		if e.kind == "forward_begin" && e.target == "new0:80" {
			vAssert(okIdx >= 0 && okIdx < k, "rollout gate: an opted-in request reaches a new rollout target only after it answered a probe with 2xx")
			vAssert(err == nil, "rollout gate: a failed rollout deploy never sends a request to the new targets")
		}
	}
	if err != nil {
		vAssert(svc.rollout == prevRollout, "rollout gate: a failed rollout deploy leaves the rollout targets as they were")
	}
	// success iff the new target had a successful probe within the deploy timeout (ties either way); return bound
	deadline := start + int64(deployTimeout)
	firstOK := int64(-1)
	if okIdx >= 0 {
		firstOK = vTrace[okIdx].at
	}
	if firstOK >= 0 && firstOK < deadline {
		vAssert(err == nil, "rollout gate: healthy within the deploy timeout => rollout deploy succeeds")
	}
	if !(firstOK >= 0 && firstOK <= deadline) {
		vAssert(err != nil, "rollout gate: no successful probe within the deploy timeout => rollout deploy fails")
	}
	vAssert(ret <= deadline+int64(drainTimeout), "rollout gate: rollout deploy returns within deploy-timeout + drain-timeout")
	res := vClientResults[0]
	if res.status != 200 {
		// only explanation allowed: the new target failed a later probe and left the rotation (C09: 503 when none is healthy)
		failedLater := false
		for k, e := range vTrace {
			if e.kind == "probe_end" && e.target == "new0:80" && !e.ok && okIdx >= 0 && k > okIdx {
				failedLater = true
			}
		}
		vAssert(res.status == 503 && failedLater && err == nil, "rollout gate: the opted-in client is served throughout (unless the only rollout target failed a later probe)")
	}
	vCover(err == nil && res.body == "FROM[new0:80]", "served by the new rollout target reachable")
	vCover(err != nil, "failed rollout deploy reachable")
}

// HarnessRedeploySameTarget: a service is redeployed with the very target it already has (same address): the gate is
// the same as for any deploy - the new balancer takes over only after that target answered a fresh probe with 2xx
// within the deploy timeout, whatever its state in the running service was.
func HarnessRedeploySameTarget() {
	vT2(vParam("preemptions", 0), vParam("firings", 12))
	vSortMode = 0
	router := NewRouter("/state")
	interval := vDur("interval")
	vAssume(interval > 0)
	ptimeout := vDur("probe_timeout")
	deployTimeout := vDur("deploy_timeout")
	drainTimeout := vDur("drain_timeout")
	topts := TargetOptions{HealthCheckConfig: HealthCheckConfig{Path: "/up", Interval: interval, Timeout: ptimeout}}
	oldSvc, oldLB := vInstallOldService(router, topts)
	P := vParam("probes", 2)
	sc := &vProbeScript{parkAfter: true}
	for p := 0; p < P; p++ {
		tag := "p" + vItoa(p)
		sc.outcomes = append(sc.outcomes, vProbeOutcome{kind: vProbeStatus, refused: vBool(tag + "_refused"), status: vIntRange(tag+"_status", 100, 599), latency: vDur(tag + "_lat")})
	}
	vProbeScripts["old:80"] = sc
	start := vNow()
	err := router.DeployService("svc", []string{"old:80"}, ServiceOptions{Hosts: []string{"h"}}, topts, deployTimeout, drainTimeout)
	vEmit(vEvent{kind: "cmd_return", ok: err == nil})
	vNote(vTraceString())
	deadline := start + int64(deployTimeout)
	firstOK := int64(-1)
	for _, e := range vTrace {
		if e.kind == "probe_end" && e.target == "old:80" && e.ok && firstOK < 0 {
			firstOK = e.at
		}
	}
	if firstOK >= 0 && firstOK < deadline {
		vAssert(err == nil, "same target: healthy within the deploy timeout => deploy succeeds")
	}
	if !(firstOK >= 0 && firstOK <= deadline) {
		vAssert(err != nil, "same target: no successful probe within the deploy timeout => deploy fails")
		vAssert(router.services.Get("svc") == oldSvc && oldSvc.active == oldLB, "same target: a failed redeploy leaves the service as it was")
	}
	vCover(err == nil, "successful redeploy reachable")
	vCover(err != nil, "failed redeploy reachable")
}
