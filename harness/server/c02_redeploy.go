package server

// ---- C02: no request fails while a service is redeployed (T2) ----

// HarnessRedeployTrafficDirected: the request is descheduled right after it obtained its Service (the one the redeploy
// replaces) and resumes when the replaced target has entered the draining state (the drain is suspended there): the
// known stale-Service finding in its C02 form, a proxy 503 during a redeploy between two healthy target sets.
func HarnessRedeployTrafficDirected() {
	vDirected = true
	vHoldAfterLookup = true
	vSuspendDrain = true
	HarnessRedeployTraffic()
}

func HarnessRedeployTraffic() {
	vT2(vParam("preemptions", 1), vParam("firings", 10))
	if !vDirected && vParam("policies", 2) == 2 {
		// both default scheduling policies (earliest-started first / latest-started first) are explored
		vSchedPolicy(vChoose("sched_policy", 2))
	}
	vSortMode = 0
	N := vParam("targets", 1)
	C := vParam("clients", 1)
	router := NewRouter("/state")
	interval := vDur("interval")
	vAssume(interval > 0)
	ptimeout := vDur("probe_timeout")
	deployTimeout := vDur("deploy_timeout")
	drainTimeout := vDur("drain_timeout")
	topts := TargetOptions{HealthCheckConfig: HealthCheckConfig{Path: "/up", Interval: interval, Timeout: ptimeout}}
	vInstallOldService(router, topts)
	names := []string{}
	for i := 0; i < N; i++ {
		name := vNewTargetName(i)
		names = append(names, name)
		// the new targets are healthy: every probe is answered 200 after an arbitrary delay shorter than the probe timeout
		lat := vDur("lat" + vItoa(i))
		vAssume(lat < ptimeout)
		vProbeScripts[name] = &vProbeScript{parkAfter: true, outcomes: []vProbeOutcome{{kind: vProbeStatus, status: 200, latency: lat}}}
	}
	root := vRootChain(router)
	done := 0
	for c := 0; c < C; c++ {
		c := c
		arrival := vIntRange("arrival"+vItoa(c), 0, vParam("arrival_points", 8))
		svcTime := vDur("service_time" + vItoa(c))
		vAssume(svcTime < drainTimeout) // requests in flight finish within the drain timeout
		// (some clients merely offer a protocol upgrade that never happens: still an ordinary request)
		// (some clients merely offer a protocol upgrade that never happens, or ask for an event stream: still ordinary requests)
		hdr := vChoose("request_header"+vItoa(c), 3)
		vProxyPlans[c] = &vProxyPlan{service: svcTime, upgradeHeader: hdr == 1, eventStream: hdr == 2}
		if vDirected {
			vAssume(arrival == 0)
		}
		go func() {
			vArriveAfter(arrival)
			vDoRequest(root, c, "h", "/")
			done++
		}()
	}
	if vDirected {
		vBlockUntil(func() bool { return vHeld == C })
	}
	err := router.DeployService("svc", names, ServiceOptions{Hosts: []string{"h"}}, topts, deployTimeout, drainTimeout)
	vEmit(vEvent{kind: "cmd_return", ok: err == nil})
	vCmdReturned = true
	vRelease = true
	vBlockUntil(func() bool { return done == C })
	vNote(vTraceString())

	for c := 0; c < C; c++ {
		res := vClientResults[c]
		fromOld := res.body == "FROM[old:80]"
		fromNew := false
		for i := 0; i < N; i++ {
			if res.body == "FROM["+names[i]+"]" {
				fromNew = true
			}
		}
		// a request that obtained the Service object the redeploy replaces and reaches its target while that is being drained
		// (history class of the known finding: the request holds the Service object that is no longer installed, and the
		// drain of the replaced target began after the swap; the position of the lookup event itself is not used - the
		// wrapper emits it after the lookup returned, possibly several scheduling points later)
		stale := false
		if li, si, di := vIndexOf("lookup", c), vIndexOf("swap", -1), vIndexOf("drain_begin", -1); li >= 0 && si >= 0 && di > si {
			got, _ := vTrace[li].obj.(*Service)
			stale = got != nil && got != router.serviceForName("svc")
		}
		if res.status == 503 && stale && vIndexOf("drain_begin", -1) >= 0 {
			vAssert(false, "redeploy: every request is answered by a target of the old or the new set, never by a proxy error [request that looked up the service before the swap meets the draining target]")
		} else {
			vAssert(res.status == 200 && (fromOld || fromNew), "redeploy: every request is answered by a target of the old or the new set, never by a proxy error")
		}
	}
	vCover(vDirected || err == nil, "successful redeploy reachable")
	vCover(vDirected || (err == nil && vClientResults[0].body == "FROM[new0:80]"), "served by new target reachable")
	vCover(vDirected || vClientResults[0].body == "FROM[old:80]", "served by old target reachable")
}
