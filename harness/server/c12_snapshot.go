package server

import "sync"

// ---- C12: the state file is always one complete, current snapshot ----

func vStateFile() []byte {
	if f := vByName["/state"]; f != nil && !f.removed {
		return f.data
	}
	return nil
}

// HarnessSnapshotCrash: one state-changing command with the process killed at an arbitrary step of the snapshot write;
// the next start must restore a complete configuration: the one before the command or the one after it.
func HarnessSnapshotCrash() {
	vSortMode = 0
	vSnapshotReal = true
	topts := TargetOptions{HealthCheckConfig: HealthCheckConfig{Path: "/up", Interval: 1000, Timeout: 1000}}
	orig := NewRouter("/state")
	svc, err := NewService("svc", ServiceOptions{Hosts: []string{"h"}}, topts)
	vAssert(err == nil, "snapshot: service builds")
	svc.active = vDeployedBalancer([]string{"a0:80"}, topts)
	svc.rollout = vDeployedBalancer([]string{"r0:80"}, topts)
	vAssert(vInstall(orig, svc), "snapshot: install")
	before := append([]byte{}, vStateFile()...)
	vAssert(len(before) > 0, "snapshot: a snapshot exists after a successful command")

	// the command, killed after `crash` file-system steps (or not at all)
	vCrashAfter = vChoose("crash_point", vParam("crash_points", 8)) - 1
	vFSOps = 0
	msg := vString("stop_msg", 2)
	cmd := vChoose("command", 6)
	crashed := vCallRecovering(func() {
		switch cmd {
		case 0:
			orig.StopService("svc", 0, msg)
		case 1:
			orig.PauseService("svc", 0, 1000)
		case 2:
			orig.SetRolloutSplit("svc", 50, []string{msg})
		case 3:
			orig.RemoveService("svc")
		case 4:
			orig.StopRollout("svc")
		case 5:
			orig.ResumeService("svc")
		}
	})
	vCrashAfter = -1
	onDisk := append([]byte{}, vStateFile()...)

	// the next start
	next := NewRouter("/state")
	rerr := next.RestoreLastSavedState()
	vAssert(rerr == nil, "snapshot: after a kill at any instant the state file restores (never empty or truncated)")
	if rerr != nil {
		return
	}
	// what the file should say after the command: a snapshot of the configuration now in force
	vAssert(orig.saveStateSnapshot() == nil, "snapshot: reference snapshot")
	after := vStateFile()
	vAssert(vOr(vJSONEqual(onDisk, before), vJSONEqual(onDisk, after)), "snapshot: the file is the snapshot from before the command or the one after it")
	if !crashed {
		vAssert(vJSONEqual(onDisk, after), "snapshot: once the command has returned the file describes the configuration in force")
	}
	vCover(crashed, "crash reachable")
	vCover(!crashed, "completed command reachable")
}

// HarnessSnapshotFirstSave: the very first snapshot of a proxy that has no state file yet, with the process killed at
// an arbitrary step of it: afterwards there is either no state file (the next start begins empty, as before the
// command) or a complete one - never an empty or truncated file.
func HarnessSnapshotFirstSave() {
	vSortMode = 0
	vSnapshotReal = true
	topts := TargetOptions{HealthCheckConfig: HealthCheckConfig{Path: "/up", Interval: 1000, Timeout: 1000}}
	orig := NewRouter("/state")
	svc, err := NewService("svc", ServiceOptions{Hosts: []string{"h"}}, topts)
	vAssert(err == nil, "snapshot: service builds")
	svc.active = vDeployedBalancer([]string{"a0:80"}, topts)
	vAssert(vStateFile() == nil, "snapshot: no state file before the first command")
	vCrashAfter = vChoose("crash_point", vParam("crash_points", 8)) - 1
	vFSOps = 0
	crashed := vCallRecovering(func() { vInstall(orig, svc) })
	vCrashAfter = -1
	onDisk := vStateFile()
	if onDisk != nil {
		next := NewRouter("/state")
		vAssert(next.RestoreLastSavedState() == nil && next.services.Get("svc") != nil, "snapshot: a state file left by the first save, killed at any instant, is complete")
	}
	if !crashed {
		vAssert(onDisk != nil, "snapshot: once the first command has returned the state file exists")
	}
	vCover(crashed, "crash during the first save reachable")
	vCover(!crashed, "completed first save reachable")
}

// HarnessSnapshotIOError: one state-changing command during which one step of the snapshot write reports an error
// (temporary file cannot be created, the disk fills up part-way through the write, close fails, rename fails): the
// process keeps running, and the state file must still be one complete snapshot - the previous one.
func HarnessSnapshotIOError() {
	vSortMode = 0
	vSnapshotReal = true
	topts := TargetOptions{HealthCheckConfig: HealthCheckConfig{Path: "/up", Interval: 1000, Timeout: 1000}}
	orig := NewRouter("/state")
	svc, err := NewService("svc", ServiceOptions{Hosts: []string{"h"}}, topts)
	vAssert(err == nil, "snapshot: service builds")
	svc.active = vDeployedBalancer([]string{"a0:80"}, topts)
	vAssert(vInstall(orig, svc), "snapshot: install")
	before := append([]byte{}, vStateFile()...)
	vAssert(len(before) > 0, "snapshot: a snapshot exists after a successful command")
	fault := vChoose("fault", 4)
	switch fault {
	case 0:
		vCreateTempFail = true
	case 1:
		vWriteFails = true
	case 2:
		vCloseFails = true
	case 3:
		vRenameFails = true
	}
	msg := vString("stop_msg", 2)
	switch vChoose("command", 3) {
	case 0:
		orig.StopService("svc", 0, msg)
	case 1:
		orig.PauseService("svc", 0, 1000)
	case 2:
		orig.RemoveService("svc")
	}
	vCreateTempFail, vWriteFails, vCloseFails, vRenameFails = false, false, false, false
	onDisk := append([]byte{}, vStateFile()...)
	vAssert(vJSONEqual(onDisk, before), "snapshot: a snapshot whose write reported an error leaves the previous complete snapshot in place")
	next := NewRouter("/state")
	vAssert(next.RestoreLastSavedState() == nil && next.services.Get("svc") != nil, "snapshot: after a failed snapshot write the state file still restores a full configuration")
	vAssert(vLiveTempFiles() == 0, "snapshot: no temporary snapshot file is left behind")
	vCover(fault == 1, "short write reachable")
}

// HarnessSnapshotOverlap (T2): two state-changing commands on different services overlap; once both have returned the
// file describes the configuration then in force, for every interleaving of their snapshot steps within the bound.
func HarnessSnapshotOverlap() {
	vT2(vParam("preemptions", 2), 4)
	vSortMode = 0
	vSnapshotReal = true
	vMapOrderFixed(true) // the order of services inside the file is immaterial
	topts := TargetOptions{HealthCheckConfig: HealthCheckConfig{Path: "/up", Interval: 1000, Timeout: 1000}}
	r := NewRouter("/state")
	for _, n := range []string{"a", "b"} {
		svc, err := NewService(n, ServiceOptions{Hosts: []string{n}}, topts)
		vAssert(err == nil, "overlap: service builds")
		svc.active = vDeployedBalancer([]string{n + "0:80"}, topts)
		vAssert(vInstall(r, svc), "overlap: install")
	}
	msg := vString("msg", 2)
	done := 0
	// the first command either drains before it snapshots (stop) or goes straight to its snapshot (resume of a
	// service paused beforehand): the latter overlaps the two snapshots within a smaller scheduling budget
	firstResumes := vChoose("first_command_resumes", 2) == 1
	if firstResumes {
		vAssert(r.PauseService("a", 0, 1000) == nil, "overlap: initial pause")
	}
	go func() {
		if firstResumes {
			r.ResumeService("a")
		} else {
			r.StopService("a", 0, msg)
		}
		done++
	}()
	removeB := vChoose("second_command_removes", 2) == 1
	go func() {
		if removeB {
			r.RemoveService("b")
		} else {
			r.PauseService("b", 0, 1000)
		}
		done++
	}()
	vBlockUntil(func() bool { return done == 2 })
	onDisk := append([]byte{}, vStateFile()...)
	next := NewRouter("/state")
	vAssert(next.RestoreLastSavedState() == nil, "overlap: the state file restores")
	a, b := next.services.Get("a"), next.services.Get("b")
	vAssert(a != nil, "overlap: the first service is in the file")
	if a != nil && firstResumes {
		vAssert(a.pauseController.GetState() == PauseStateRunning, "overlap: once both commands returned the file has the first command's effect")
	} else if a != nil {
		vAssert(a.pauseController.GetState() == PauseStateStopped && a.pauseController.StopMessage == msg, "overlap: once both commands returned the file has the first command's effect")
	}
	if removeB {
		vAssert(b == nil, "overlap: ... and the second command's effect (service removed)")
	} else {
		vAssert(b != nil && b.pauseController.GetState() == PauseStatePaused, "overlap: ... and the second command's effect (service paused)")
	}
	vAssert(r.saveStateSnapshot() == nil, "overlap: reference snapshot")
	vAssert(vJSONEqual(onDisk, vStateFile()), "overlap: the file equals a snapshot of the final configuration")
	vAssert(vLiveTempFiles() == 0, "overlap: no temporary snapshot file is left behind")
	vAssert(vRaceCount() == 0, "overlap: no data race between the two commands")
	vCover(true, "overlap explored")
}

// Directed variant: the first command is descheduled right before it takes the snapshot lock for the first time and
// resumes only when the second command has returned. (If anything of the snapshot was prepared before the lock, it is
// stale by then.)
var vSnapshotLockOf *Router
var vSnapshotLockHeldOnce bool

//verif:stub (*sync.Mutex).Lock harness=HarnessSnapshotOverlapDirected
func stubMutexLockDirected(mu *sync.Mutex) {
	if vSnapshotLockOf != nil && mu == &vSnapshotLockOf.snapshotLock && !vSnapshotLockHeldOnce && vGoTag == "first" {
		vSnapshotLockHeldOnce = true
		vHeld++
		vBlockUntil(func() bool { return vRelease })
	}
	mu.Lock()
}

// (an implementation that only tries the snapshot lock is held at the same point)
//
//verif:stub (*sync.Mutex).TryLock harness=HarnessSnapshotOverlapDirected
func stubMutexTryLockDirected(mu *sync.Mutex) bool {
	if vSnapshotLockOf != nil && mu == &vSnapshotLockOf.snapshotLock && !vSnapshotLockHeldOnce && vGoTag == "first" {
		vSnapshotLockHeldOnce = true
		vHeld++
		vBlockUntil(func() bool { return vRelease })
	}
	return mu.TryLock()
}

var vGoTag string

func HarnessSnapshotOverlapDirected() {
	vT2(0, 4)
	vSortMode = 0
	vSnapshotReal = true
	vMapOrderFixed(true)
	topts := TargetOptions{HealthCheckConfig: HealthCheckConfig{Path: "/up", Interval: 1000, Timeout: 1000}}
	r := NewRouter("/state")
	for _, n := range []string{"a", "b"} {
		svc, err := NewService(n, ServiceOptions{Hosts: []string{n}}, topts)
		vAssert(err == nil, "overlap: service builds")
		svc.active = vDeployedBalancer([]string{n + "0:80"}, topts)
		vAssert(vInstall(r, svc), "overlap: install")
	}
	vSnapshotLockOf = r
	msg := vString("msg", 2)
	done := 0
	go func() {
		vGoTag = "first" // (only this goroutine runs until it is held: the tag is read before any switch)
		r.StopService("a", 0, msg)
		done++
	}()
	vBlockUntil(func() bool { return vHeld == 1 || done == 1 })
	vGoTag = ""
	removeB := vChoose("second_command_removes", 2) == 1
	if removeB {
		r.RemoveService("b")
	} else {
		r.PauseService("b", 0, 1000)
	}
	vRelease = true
	vBlockUntil(func() bool { return done == 1 })
	next := NewRouter("/state")
	vAssert(next.RestoreLastSavedState() == nil, "overlap: the state file restores")
	a, b := next.services.Get("a"), next.services.Get("b")
	vAssert(a != nil && a.pauseController.GetState() == PauseStateStopped && a.pauseController.StopMessage == msg, "overlap: once both commands returned the file has the first command's effect")
	if removeB {
		vAssert(b == nil, "overlap: ... and the second command's effect (service removed)")
	} else {
		vAssert(b != nil && b.pauseController.GetState() == PauseStatePaused, "overlap: ... and the second command's effect (service paused)")
	}
	vCover(vHeld == 1, "first command held at the snapshot lock")
}
