package server

import (
	"context"
	"crypto/tls"
	"html/template"
	"io"
	"io/fs"
	"log/slog"
	"net/http"
	"net/url"
	texttemplate "text/template"

	"github.com/google/uuid"
	"golang.org/x/crypto/acme/autocert"
)

// ---- environment stubs shared by the service-level harnesses ----

// --- html/template: which page set has a page for which status; rendering writes a marker ---

type vPageSet struct {
	name      string
	has       map[string]bool // "503.html" -> present
	execFails bool
	parent    *vPageSet
	page      string
}

type vDirFS string

func (d vDirFS) Open(name string) (fs.File, error) { return nil, fs.ErrNotExist }

var vTemplates = map[*template.Template]*vPageSet{}
var vCustomSets = map[string]*vPageSet{} // by directory
var vCustomParseFails = map[string]bool{}
var vBuiltinSet = &vPageSet{name: "builtin", has: map[string]bool{"404.html": true, "413.html": true, "502.html": true, "503.html": true, "504.html": true}}

type vRendered struct {
	set      string
	page     string
	args     any
	escaping bool // rendered by html/template (contextual escaping) rather than text/template
}

var vRenders []vRendered

//verif:stub os.DirFS
func stubDirFS(dir string) fs.FS { return vDirFS(dir) }

//verif:stub html/template.ParseFS
func stubParseFS(fsys fs.FS, patterns ...string) (*template.Template, error) {
	set := vBuiltinSet
	if d, ok := fsys.(vDirFS); ok {
		if vCustomParseFails[string(d)] {
			return nil, errVDisk
		}
		set = vCustomSets[string(d)]
		if set == nil {
			return nil, errVDisk // no files match the pattern
		}
	}
	t := &template.Template{}
	vTemplates[t] = set
	return t, nil
}

//verif:stub (*html/template.Template).Lookup
func stubTemplateLookup(t *template.Template, name string) *template.Template {
	set := vTemplates[t]
	if set == nil || !set.has[name] {
		return nil
	}
	p := &template.Template{}
	vTemplates[p] = &vPageSet{name: set.name, parent: set, page: name, execFails: set.execFails}
	return p
}

//verif:stub (*html/template.Template).Execute
func stubTemplateExecute(t *template.Template, w io.Writer, data any) error {
	p := vTemplates[t]
	if p.execFails {
		return errVDisk
	}
	vRenders = append(vRenders, vRendered{set: p.name, page: p.page, args: data, escaping: true})
	w.Write([]byte("PAGE[" + p.name + "/" + p.page + "]"))
	return nil
}

// the same page sets when the code under test renders them with text/template (same API, no escaping): recorded as such

var vTextTemplates = map[*texttemplate.Template]*vPageSet{}

//verif:stub text/template.ParseFS
func stubTextParseFS(fsys fs.FS, patterns ...string) (*texttemplate.Template, error) {
	set := vBuiltinSet
	if d, ok := fsys.(vDirFS); ok {
		if vCustomParseFails[string(d)] {
			return nil, errVDisk
		}
		set = vCustomSets[string(d)]
		if set == nil {
			return nil, errVDisk
		}
	}
	t := &texttemplate.Template{}
	vTextTemplates[t] = set
	return t, nil
}

//verif:stub (*text/template.Template).Lookup
func stubTextTemplateLookup(t *texttemplate.Template, name string) *texttemplate.Template {
	set := vTextTemplates[t]
	if set == nil || !set.has[name] {
		return nil
	}
	p := &texttemplate.Template{}
	vTextTemplates[p] = &vPageSet{name: set.name, parent: set, page: name, execFails: set.execFails}
	return p
}

//verif:stub (*text/template.Template).Execute
func stubTextTemplateExecute(t *texttemplate.Template, w io.Writer, data any) error {
	p := vTextTemplates[t]
	if p.execFails {
		return errVDisk
	}
	vRenders = append(vRenders, vRendered{set: p.name, page: p.page, args: data, escaping: false})
	w.Write([]byte("PAGE[" + p.name + "/" + p.page + "]"))
	return nil
}

//verif:stub (*text/template.Template).Name
func stubTextTemplateName(t *texttemplate.Template) string { return "page" }

//verif:stub (*html/template.Template).Name
func stubTemplateName(t *template.Template) string { return "page" }

// --- TLS / ACME ---

var vLoadCertFails bool

//verif:stub crypto/tls.LoadX509KeyPair
func stubLoadX509KeyPair(certFile, keyFile string) (tls.Certificate, error) {
	if vLoadCertFails {
		return tls.Certificate{}, errVDisk
	}
	return tls.Certificate{}, nil
}

//verif:stub golang.org/x/crypto/acme/autocert.HostWhitelist
func stubHostWhitelist(hosts ...string) autocert.HostPolicy { return nil }

//verif:stub (*golang.org/x/crypto/acme/autocert.Manager).HTTPHandler
func stubAutocertHTTPHandler(m *autocert.Manager, fallback http.Handler) http.Handler {
	return fallback
}

var vAutocertGetCert int

//verif:stub (*golang.org/x/crypto/acme/autocert.Manager).GetCertificate
func stubAutocertGetCertificate(m *autocert.Manager, hello *tls.ClientHelloInfo) (*tls.Certificate, error) {
	vAutocertGetCert++
	return &tls.Certificate{}, nil
}

//verif:stub (github.com/basecamp/kamal-proxy/internal/server.ServiceOptions).ScopedCachePath
func stubScopedCachePath(so ServiceOptions) string { return "cache" }

// --- net/url, net/http bits ---

var vRequestURI = map[*url.URL]string{}

//verif:stub (*net/url.URL).RequestURI
func stubRequestURI(u *url.URL) string {
	if s, ok := vRequestURI[u]; ok {
		return s
	}
	if vRealRequestURI {
		return u.RequestURI() // the real method (a stub may call the function it replaces)
	}
	return ""
}

// vRealRequestURI: URLs without a scripted request URI get the one net/url computes (HarnessSubpathRedirect).
var vRealRequestURI bool

type vRedirect struct {
	url  string
	code int
}

var vRedirects []vRedirect

//verif:stub net/http.Redirect
func stubHTTPRedirect(w http.ResponseWriter, r *http.Request, url string, code int) {
	vRedirects = append(vRedirects, vRedirect{url, code})
	w.Header().Set("Location", url)
	w.WriteHeader(code)
}

// --- the target's proxy handler: records the forward, answers with a token ---

type vForward struct {
	target *Target
	req    *http.Request
}

var vForwards []vForward

type vTargetHandler struct {
	t      *Target
	status int
}

func (h *vTargetHandler) ServeHTTP(w http.ResponseWriter, r *http.Request) {
	vForwards = append(vForwards, vForward{h.t, r})
	w.WriteHeader(h.status)
	w.Write([]byte("FROM[" + h.t.Target() + "]"))
}

func vHealthyTarget(name string) *Target {
	t := vBareTarget(name, TargetStateHealthy)
	t.proxyHandler = &vTargetHandler{t: t, status: 200}
	return t
}

func vBalancer(names ...string) *LoadBalancer {
	lb := &LoadBalancer{healthy: TargetList{}, all: TargetList{}}
	for _, n := range names {
		t := vHealthyTarget(n)
		t.stateConsumer = lb
		lb.all = append(lb.all, t)
	}
	lb.updateHealthyTargets()
	return lb
}

// --- log/slog attribute constructors and the access-log sink ---
// slog.Value is built with unsafe tricks; the constructors are replaced by recorders: attributes are collected
// in construction order and committed as one record by LogAttrs.

type vAttr struct {
	key string
	str string
	num int64
	isN bool
}

var vPendingAttrs []vAttr
var vLogRecords [][]vAttr
var vLogMsgs []string

//verif:stub log/slog.String
func stubSlogString(key, value string) slog.Attr {
	vPendingAttrs = append(vPendingAttrs, vAttr{key: key, str: value})
	return slog.Attr{Key: key}
}

//verif:stub log/slog.Int
func stubSlogInt(key string, value int) slog.Attr {
	vPendingAttrs = append(vPendingAttrs, vAttr{key: key, num: int64(value), isN: true})
	return slog.Attr{Key: key}
}

//verif:stub log/slog.Int64
func stubSlogInt64(key string, value int64) slog.Attr {
	vPendingAttrs = append(vPendingAttrs, vAttr{key: key, num: value, isN: true})
	return slog.Attr{Key: key}
}

//verif:stub (*log/slog.Logger).LogAttrs
func stubLogAttrs(l *slog.Logger, ctx context.Context, level slog.Level, msg string, attrs ...slog.Attr) {
	rec := []vAttr{}
	for _, a := range attrs {
		// match constructed attributes by key, in order
		for i, p := range vPendingAttrs {
			if p.key == a.Key {
				rec = append(rec, p)
				vPendingAttrs = append(vPendingAttrs[:i:i], vPendingAttrs[i+1:]...)
				break
			}
		}
	}
	vPendingAttrs = nil
	vLogRecords = append(vLogRecords, rec)
	vLogMsgs = append(vLogMsgs, msg)
}

func vLogField(rec []vAttr, key string) (vAttr, bool) {
	for _, a := range rec {
		if a.key == key {
			return a, true
		}
	}
	return vAttr{}, false
}

// --- uuid ---

var vUUIDs int

//verif:stub github.com/google/uuid.New
func stubUUIDNew() uuid.UUID { vUUIDs++; return uuid.UUID{byte(vUUIDs)} }

//verif:stub (github.com/google/uuid.UUID).String
func stubUUIDString(u uuid.UUID) string { return "generated-id-" + vItoa(int(u[0])) }
