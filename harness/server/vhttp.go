package server

import (
	"bufio"
	"errors"
	"net"
	"net/http"
)

// ---- ResponseWriter model with net/http semantics ----

type vRecorder struct {
	hdr           http.Header
	status        int
	wroteHeader   bool
	informational []int
	superfluous   int
	body          []byte
	writes        int
	hijacked      bool
	flushes       int
	noHijack      bool
}

func vNewRecorder() *vRecorder { return &vRecorder{hdr: http.Header{}} }

func (r *vRecorder) Header() http.Header { return r.hdr }

func (r *vRecorder) WriteHeader(code int) {
	if r.hijacked {
		return
	}
	if r.wroteHeader {
		r.superfluous++
		return
	}
	if code >= 100 && code <= 199 && code != 101 {
		r.informational = append(r.informational, code)
		return
	}
	r.wroteHeader = true
	r.status = code
}

var errVHijacked = errors.New("http: connection has been hijacked")

func (r *vRecorder) Write(p []byte) (int, error) {
	if r.hijacked {
		return 0, errVHijacked
	}
	if !r.wroteHeader {
		r.WriteHeader(200)
	}
	r.body = append(r.body, p...)
	r.writes++
	return len(p), nil
}

// finish models the end of the handler: net/http writes an implicit 200 header block if none was written.
func (r *vRecorder) finish() {
	if !r.hijacked && !r.wroteHeader {
		r.WriteHeader(200)
	}
}

func (r *vRecorder) Flush() {
	if !r.wroteHeader {
		r.WriteHeader(200)
	}
	r.flushes++
}

// vHijackRecorder additionally implements http.Hijacker.
type vHijackRecorder struct{ *vRecorder }

func (r vHijackRecorder) Hijack() (net.Conn, *bufio.ReadWriter, error) {
	vYield() // taking over the connection is not instantaneous: other goroutines may run meanwhile
	r.vRecorder.hijacked = true
	return nil, nil, nil
}

// stubHTTPError mirrors net/http.Error (go1.24): clears Content-Length, sets the plain-text headers,
// writes the status and the message followed by a newline.
//
//verif:stub net/http.Error
func stubHTTPError(w http.ResponseWriter, msg string, code int) {
	h := w.Header()
	h.Del("Content-Length")
	h.Set("Content-Type", "text/plain; charset=utf-8")
	h.Set("X-Content-Type-Options", "nosniff")
	w.WriteHeader(code)
	w.Write([]byte(msg + "\n"))
}
