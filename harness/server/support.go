package server

// Harness intrinsics. The symbolic executor (gosym) intercepts every function in this
// file by name; the bodies below are the *native* implementations used when a
// counterexample is replayed against the real build (values come from VERIF_REPLAY).

import (
	"encoding/json"
	"fmt"
	"os"
	"time"
)

type vReplayData struct {
	Inputs map[string]any `json:"inputs"`
	Params map[string]int `json:"params"`
}

var vReplay *vReplayData
var vFailures []string
var vCovered = map[string]bool{}

func vLoadReplay() {
	if vReplay != nil {
		return
	}
	vReplay = &vReplayData{Inputs: map[string]any{}, Params: map[string]int{}}
	if p := os.Getenv("VERIF_REPLAY"); p != "" {
		b, err := os.ReadFile(p)
		if err != nil {
			panic(err)
		}
		if err := json.Unmarshal(b, vReplay); err != nil {
			panic(err)
		}
	}
}

func vNum(name string) int64 {
	vLoadReplay()
	switch v := vReplay.Inputs[name].(type) {
	case float64:
		return int64(v)
	case bool:
		if v {
			return 1
		}
		return 0
	case json.Number:
		n, _ := v.Int64()
		return n
	}
	return 0
}

func vBool(name string) bool {
	vLoadReplay()
	if b, ok := vReplay.Inputs[name].(bool); ok {
		return b
	}
	return false
}
func vInt(name string) int       { return int(vNum(name)) }
func vInt64(name string) int64   { return vNum(name) }
func vUint32(name string) uint32 { return uint32(vNum(name)) }
func vByte(name string) byte     { return byte(vNum(name)) }
func vIntRange(name string, lo, hi int) int {
	v := int(vNum(name))
	if v < lo || v > hi {
		v = lo
	}
	return v
}
func vDuration(name string) time.Duration            { return time.Duration(vNum(name)) }
func vDurationN(name string, bits int) time.Duration { return time.Duration(vNum(name)) }

func vString(name string, cap int) string {
	vLoadReplay()
	m, ok := vReplay.Inputs[name].(map[string]any)
	if !ok {
		return ""
	}
	arr, _ := m["bytes"].([]any)
	bs := make([]byte, len(arr))
	for i, x := range arr {
		f, _ := x.(float64)
		bs[i] = byte(f)
	}
	return string(bs)
}

func vBytes(name string, n int) []byte {
	out := make([]byte, n)
	for i := range out {
		out[i] = byte(vNum(fmt.Sprintf("%s[%d]", name, i)))
	}
	return out
}

func vChoose(name string, n int) int {
	v := int(vNum(name))
	if v < 0 || v >= n {
		return 0
	}
	return v
}

type vAssumeFailed struct{}

func vAssume(c bool) {
	if !c {
		panic(vAssumeFailed{})
	}
}

func vAssert(c bool, label string) {
	if !c {
		vFailures = append(vFailures, label)
		fmt.Println("VERIF-ASSERT-FAILED", label)
	}
}
func vCover(c bool, label string) {
	if c {
		vCovered[label] = true
	}
}
func vFail(label string)      { vAssert(false, label) }
func vAnd(a, b bool) bool     { return a && b }
func vOr(a, b bool) bool      { return a || b }
func vNot(a bool) bool        { return !a }
func vImplies(a, b bool) bool { return !a || b }
func vIff(a, b bool) bool     { return a == b }
func vIteInt(c bool, a, b int) int {
	if c {
		return a
	}
	return b
}
func vIteStr(c bool, a, b string) string {
	if c {
		return a
	}
	return b
}
func vLog(args ...any)                 { fmt.Println(args...) }
func vMapOrderFixed(b bool)            {}
func vSymbolic() bool                  { return false }
func vIsConcrete(v any) bool           { return true }
func vConcretizeInt(v, lo, hi int) int { return v }
func vParam(name string, def int) int {
	vLoadReplay()
	if v, ok := vReplay.Params[name]; ok {
		return v
	}
	return def
}
func vFixMapOrderType(t string) {}

func vNow() int64 { return 0 }

// T2 intrinsics (native: no-ops / real goroutines are used)
func vT2(preemptions, firings int) {}
func vJoinAll()                    {}
func vYield()                      {}
func vDaemon()                     {}
func vGoName(name string)          {}
func vGid() int                    { return 0 }
func vAtomicBegin()                {}
func vAtomicEnd()                  {}
func vSleep(d time.Duration)       { time.Sleep(d) }
func vRaceCount() int              { return 0 }
func vBlockUntil(f func() bool) {
	for !f() {
		time.Sleep(time.Millisecond)
	}
}

func vNote(s string) { fmt.Println("NOTE:", s) }

func vJSONEqual(a, b []byte) bool   { return string(a) == string(b) }
func vJSONTruncate(b []byte) []byte { return b[:len(b)/2] }
func vJSONString(b []byte) string   { return string(b) }

func vSchedPolicy(p int) {}

// vWatchStore registers a monitor run right after program code stores to the named struct field (engine only).
func vWatchStore(field string, fn func(obj any)) {}

// Name-based access to private identifiers of the package under test (engine only): a package variable, a new struct
// (pointer) with one field set, a field of a pointed-to struct (nil for a nil pointer), a package-level function.
func vPkgVar(name string) any                        { panic("vPkgVar is engine-only") }
func vNewStruct(typeName, field string, val any) any { panic("vNewStruct is engine-only") }
func vFieldOf(ptr any, field string) any             { panic("vFieldOf is engine-only") }
func vPkgFunc(name string, args ...any) any          { panic("vPkgFunc is engine-only") }

// vCallMethod calls a method of the code under test by name (engine only) and returns its first result, nil if it has
// none; used for private functions whose signature a change may alter, so that the harnesses keep compiling.
func vCallMethod(recv any, name string, args ...any) any {
	panic("vCallMethod is engine-only")
}
