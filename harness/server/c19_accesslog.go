package server

import (
	"context"
	"crypto/tls"
	"errors"
	"net/http"
	"net/url"
	"strings"
)

// ---- C19: access log ----

// vEndingHandler: the reverse proxy's possible endings as seen by the logging middleware.
type vEndingHandler struct {
	t       *Target
	mode    int // 0 served, 1 proxy error (real handleProxyError), 2 upgrade (hijack), 3 abort after partial body
	status  int
	body    []byte
	err     error
	respHdr string
	early   bool
	cancel  context.CancelFunc // the client's context: cancelled before a "client went away" proxy error is handled
}

func (h *vEndingHandler) ServeHTTP(w http.ResponseWriter, r *http.Request) {
	vTargetSeen = append(vTargetSeen, r)
	switch h.mode {
	case 0:
		w.Header()["X-Custom"] = []string{h.respHdr}
		if h.early {
			w.WriteHeader(103) // informational response (Early Hints) before the final header block
		}
		w.WriteHeader(h.status)
		w.Write(h.body)
	case 1:
		if h.cancel != nil && errors.Is(h.err, context.Canceled) {
			h.cancel() // the client has gone away: its context is cancelled when the error is handled
		}
		h.t.handleProxyError(w, r, h.err)
	case 2:
		if hj, ok := w.(http.Hijacker); ok {
			hj.Hijack()
		}
	case 3:
		w.WriteHeader(h.status)
		w.Write(h.body)
		panic(errVAbort)
	}
}

func HarnessAccessLog() {
	router := NewRouter("/state")
	tlsOn, redirect := vBool("tls"), vBool("redirect")
	opts := ServiceOptions{Hosts: []string{"example.com"}, TLSEnabled: tlsOn, TLSRedirect: redirect, TLSCertificatePath: "c", TLSPrivateKeyPath: "k"}
	// (with and without response buffering in front of the proxy handler)
	topts := TargetOptions{HealthCheckConfig: HealthCheckConfig{Path: "/up"}, LogRequestHeaders: []string{"x-req-a", "X-Missing"}, LogResponseHeaders: []string{"x-custom"},
		BufferResponses: vBool("buffer_responses"), MaxMemoryBufferSize: 1 << 20}
	svc, err := NewService("svc", opts, topts)
	vAssert(err == nil, "log: service builds")
	t, err := NewTarget("backend:3000", topts)
	vAssert(err == nil, "log: target builds")
	t.state = TargetStateHealthy
	eh := &vEndingHandler{t: t, mode: vChoose("ending", 4), status: vIntRange("status", 200, 599), respHdr: vString("resp_hdr", 2)}
	if eh.mode == 0 {
		eh.early = vChoose("early_hints", 2) == 1
	}
	if eh.mode == 1 {
		eh.err = vMakeErr(vChoose("errkind", vNumKinds))
	} else if eh.mode != 2 {
		eh.body = vBytes("body", vChoose("bodylen", 3))
	}
	t.proxyHandler = vRebuildTargetChain(t, eh)
	lb := &LoadBalancer{healthy: TargetList{}, all: TargetList{t}}
	t.stateConsumer = lb
	lb.updateHealthyTargets()
	svc.active = lb
	router.services.Set(svc)
	switch vChoose("pause", 3) {
	case 1:
		mp := vDuration("maxpause")
		vAssume(mp >= 0 && mp < 1<<40)
		svc.pauseController.Pause(mp)
	case 2:
		svc.pauseController.Stop(vString("stopmsg", 2))
	}
	srv := NewServer(&Config{HttpPort: 80, HttpsPort: 443}, router)
	h := srv.buildHandler()

	host := "example.com"
	if vChoose("unknown_host", 2) == 1 {
		host = "other.org" // no service: 404
	}
	path := vString("path", 3)
	vAssume(strings.HasPrefix(path, "/")) // origin-form request target
	query := vString("query", 3)
	method := vIteStr(vBool("post"), "POST", "GET")
	u := &url.URL{Path: path, RawQuery: query}
	vRequestURI[u] = "/uri"
	req := &http.Request{Method: method, URL: u, Host: host, Header: http.Header{}, RemoteAddr: "1.2.3.4:5", Proto: "HTTP/1.1"}
	hdrA := vString("req_hdr_a", 2)
	if vBool("has_req_hdr_a") {
		req.Header["X-Req-A"] = []string{hdrA, "second"}
	}
	clientID := vString("client_id", 2)
	if vBool("has_id") {
		req.Header["X-Request-Id"] = []string{clientID}
	}
	if vBool("over_tls") {
		req.TLS = &tls.ConnectionState{}
	}
	ctx, cancel := context.WithCancel(context.Background())
	eh.cancel = cancel
	req = req.WithContext(ctx)
	client := vNewRecorder()
	var w http.ResponseWriter = client
	if eh.mode == 2 {
		w = vHijackRecorder{client}
	}
	panicked := vCallRecovering(func() { h.ServeHTTP(w, req) })
	if !panicked {
		client.finish()
	}

	vAssert(len(vLogRecords) == 1, "log: exactly one access-log record per request (also when the handler aborts)")
	if len(vLogRecords) != 1 {
		return
	}
	rec := vLogRecords[0]
	get := func(k string) vAttr { a, _ := vLogField(rec, k); return a }
	reached := len(eh.reachedMarker()) > 0
	_ = reached
	// what actually happened, from the client's side
	wantStatus := client.status
	if client.hijacked {
		wantStatus = 101
	}
	if !client.wroteHeader && !client.hijacked {
		wantStatus = 200 // aborted before any header: net/http would have sent nothing; the record keeps the default
	}
	vAssert(get("status").num == int64(wantStatus), "log: status is the one the client got (101 for an upgraded connection)")
	if eh.mode == 1 && len(vTargetSeen) > 0 {
		vAssert(client.wroteHeader && client.status >= 400, "log: a proxy error status is written to the client (and logged), with or without response buffering")
	}
	vAssert(get("resp_content_length").num == int64(len(client.body)), "log: response byte count is what was written to the client")
	vAssert(get("method").str == method && get("host").str == host && get("path").str == path && get("query").str == query, "log: method, host, path and query are the request's")
	vAssert(get("request_id").str == req.Header.Get("X-Request-ID") && get("request_id").str != "", "log: request id is the one used for the request")
	handled := host == "example.com"
	if handled {
		vAssert(get("service").str == "svc", "log: service is the one that handled the request")
	} else {
		vAssert(get("service").str == "" && get("target").str == "", "log: no service / target when none handled it")
		vAssert(get("status").num == 404, "log: unroutable => 404 logged")
	}
	forwarded := len(vTargetSeen) > 0
	if forwarded {
		vAssert(get("target").str == "backend:3000", "log: target is the one the request was sent to")
		// configured extra headers, under req_/resp_ + lower-snake name, comma-joined values
		a, okA := vLogField(rec, "req_x_req_a")
		wantA := ""
		if len(req.Header["X-Req-A"]) > 0 {
			wantA = hdrA + ",second"
		}
		vAssert(okA && a.str == wantA, "log: configured request header logged with the values actually sent")
		mq, okM := vLogField(rec, "req_x_missing")
		vAssert(okM && mq.str == "", "log: configured but absent request header logged empty")
		b, okB := vLogField(rec, "resp_x_custom")
		wantB := ""
		if eh.mode == 0 {
			wantB = eh.respHdr
		}
		vAssert(okB && b.str == wantB, "log: configured response header logged with the value actually sent")
	} else {
		vAssert(get("target").str == "", "log: no target when the request was not forwarded")
	}
	vCover(forwarded && eh.mode == 0, "served reachable")
	vCover(forwarded && eh.mode == 2, "upgrade reachable")
	vCover(forwarded && eh.mode == 3, "abort reachable")
	vCover(handled && !forwarded && client.status == 301, "redirect reachable")
	vCover(handled && !forwarded && client.status == 503, "stopped / refused reachable")
	vCover(handled && !forwarded && client.status == 504, "pause timeout reachable")
}

var vTargetSeen []*http.Request

func (h *vEndingHandler) reachedMarker() []*http.Request { return vTargetSeen }
