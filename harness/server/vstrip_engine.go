package server

//verif:engine-only

// The routing context (`contextKeyRoutingContext`, `routingContext`, `RoutingContext`) is reached by name, through the
// engine, so that a change which removes or renames these private identifiers makes only the harnesses that use
// them inconclusive — not every check of the package (seeded change C16_i). vstrip_native.go is the native twin.

import (
	"context"
	"net/http"
)

// vWithStripContext attaches what Router.ServeHTTP attaches for a service that strips its matched prefix.
func vWithStripContext(req *http.Request, prefix string) *http.Request {
	return req.WithContext(context.WithValue(req.Context(), vPkgVar("contextKeyRoutingContext"), vNewStruct("routingContext", "MatchedPrefix", prefix)))
}

// vMatchedPrefix reads the routing context back: the matched prefix and whether a context is attached.
func vMatchedPrefix(r *http.Request) (string, bool) {
	mp := vFieldOf(vPkgFunc("RoutingContext", r), "MatchedPrefix")
	if mp == nil {
		return "", false
	}
	return mp.(string), true
}
