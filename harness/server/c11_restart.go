package server

import (
	"net/http"
	"net/url"
	"time"
)

// ---- C11: a restart changes nothing observable ----

func vHealthyScript() *vProbeScript {
	return &vProbeScript{outcomes: []vProbeOutcome{{kind: vProbeStatus, status: 200, latency: 0}}}
}

// vDeployedBalancer: a balancer built by the real constructors (its targets use the real proxy handler chain, i.e. the
// reverse-proxy stub) whose targets are healthy.
func vDeployedBalancer(names []string, topts TargetOptions) *LoadBalancer {
	tl, err := NewTargetList(names, topts)
	vAssert(err == nil, "setup: targets build")
	for _, n := range names {
		vProbeScripts[n] = vHealthyScript()
	}
	lb := NewLoadBalancer(tl)
	lb.MarkAllHealthy()
	return lb
}

type vOutcome struct {
	status   int
	body     string
	location string
	rendered int
	message  string
}

func vServeOnce(r *Router, n int, method, host, path string, cookie string, hasCookie bool, overTLS bool) vOutcome {
	req := &http.Request{Method: method, URL: &url.URL{Path: path}, Header: http.Header{}, Host: host, RemoteAddr: "1.2.3.4:5", Body: vEmptyBody{}}
	vRequestURI[req.URL] = path
	if hasCookie {
		req.Header["Cookie"] = []string{RolloutCookieName + "=" + cookie}
	}
	vCookies[req] = vCookie{has: hasCookie, value: cookie}
	vRenders = nil
	w := vNewRecorder()
	root := vRootChain(r)
	root.ServeHTTP(w, req)
	w.finish()
	o := vOutcome{status: w.status, body: string(w.body), location: w.hdr.Get("Location"), rendered: len(vRenders)}
	if len(vRenders) == 1 {
		if a, ok := vRenders[0].args.(struct{ Message string }); ok {
			o.message = a.Message
		}
	}
	return o
}

func HarnessRestartEquiv() {
	vSortMode = 0
	vSnapshotReal = true
	// ---- an arbitrary configuration: one service with symbolic settings, pause state and rollout state ----
	host := "h"
	prefix := "/"
	if vChoose("subpath", 2) == 1 {
		prefix = "/app"
	}
	// with tieflags=1 the four boolean settings below share one symbolic value (a dropped or defaulted field still shows)
	flag := func(name string) bool { return vBool(name) }
	if vParam("tieflags", 0) == 1 {
		shared := vBool("flags")
		flag = func(name string) bool { return shared }
	}
	opts := ServiceOptions{Hosts: []string{host}, PathPrefixes: []string{prefix}, TLSEnabled: vBool("tls"), TLSRedirect: vBool("tls_redirect"),
		TLSCertificatePath: "cert.pem", TLSPrivateKeyPath: "key.pem", StripPrefix: flag("strip")}
	topts := TargetOptions{
		HealthCheckConfig:   HealthCheckConfig{Path: "/up", Interval: vDur("hc_interval") + 1, Timeout: vDur("hc_timeout") + 1},
		ResponseTimeout:     vDur("response_timeout"),
		BufferRequests:      flag("buffer_requests"),
		BufferResponses:     flag("buffer_responses"),
		MaxMemoryBufferSize: vInt64("max_mem"),
		MaxRequestBodySize:  vInt64("max_req"),
		MaxResponseBodySize: vInt64("max_resp"),
		ForwardHeaders:      flag("forward_headers"),
		LogRequestHeaders:   []string{"X-Log-Me"},
	}
	// arbitrary limits that do not bite for the tiny bodies used here (buffering itself is C14's subject; here the
	// values only have to survive the restart)
	vAssume(topts.MaxMemoryBufferSize >= 1024)
	vAssume(vOr(topts.MaxRequestBodySize == 0, topts.MaxRequestBodySize >= 1024))
	vAssume(vOr(topts.MaxResponseBodySize == 0, topts.MaxResponseBodySize >= 1024))
	orig := NewRouter("/state")
	svc, err := NewService("svc", opts, topts)
	vAssert(err == nil, "restart: service builds")
	svc.active = vDeployedBalancer([]string{"a0:80", "a1:80"}, topts)
	// "slice" restricts the product of dimensions explored by one run: 0 everything; 1 pause states x continuations
	// (no rollout); 2 rollout states x continuations (running)
	slice := vParam("slice", 0)
	rolloutMode := 0
	if slice != 1 {
		rolloutMode = vChoose("rollout", 3) // 0 none, 1 targets only, 2 targets + split
	}
	allowV := vString("allow", 2)
	if rolloutMode >= 1 {
		svc.rollout = vDeployedBalancer([]string{"r0:80"}, topts)
	}
	if rolloutMode == 2 {
		pct := []int{0, 50, 100}[vChoose("pct", 3)]
		vAssert(svc.SetRolloutSplit(pct, []string{allowV}) == nil, "restart: split accepted")
	}
	maxPause := vDur("max_pause")
	stopMsg := vString("stop_msg", 2)
	pauseMode := 0
	if slice != 2 {
		pauseMode = vChoose("pause", 3)
	}
	switch pauseMode {
	case 1:
		svc.pauseController.Pause(maxPause)
	case 2:
		svc.pauseController.Stop(stopMsg)
	}
	vAssert(vInstall(orig, svc), "restart: install")

	// ---- restart: a fresh router restores the file written by the original ----
	first := append([]byte{}, vByName["/state"].data...)
	rest := NewRouter("/state")
	vAssert(rest.RestoreLastSavedState() == nil, "restart: the state file restores")
	rsvc := rest.services.Get("svc")
	vAssert(rsvc != nil, "restart: the service is restored")
	if rsvc == nil {
		return
	}
	// settings
	vAssert(len(rsvc.options.Hosts) == 1 && rsvc.options.Hosts[0] == host && len(rsvc.options.PathPrefixes) == 1 && rsvc.options.PathPrefixes[0] == prefix, "restart: same hosts and path prefixes")
	vAssert(rsvc.options.TLSEnabled == svc.options.TLSEnabled && rsvc.options.TLSRedirect == svc.options.TLSRedirect && rsvc.options.StripPrefix == svc.options.StripPrefix, "restart: same TLS and prefix-stripping settings")
	for _, t := range rsvc.active.all {
		o := t.options
		vAssert(o.HealthCheckConfig == topts.HealthCheckConfig && o.ResponseTimeout == topts.ResponseTimeout, "restart: same health-check and timeout settings")
		vAssert(o.BufferRequests == topts.BufferRequests && o.BufferResponses == topts.BufferResponses && o.MaxMemoryBufferSize == topts.MaxMemoryBufferSize &&
			o.MaxRequestBodySize == topts.MaxRequestBodySize && o.MaxResponseBodySize == topts.MaxResponseBodySize && o.ForwardHeaders == topts.ForwardHeaders, "restart: same buffering and forwarding settings")
		vAssert(t.State() == TargetStateHealthy, "restart: restored targets are presumed healthy")
	}
	names := rsvc.active.Targets().Names()
	vAssert(len(names) == 2 && names[0] == "a0:80" && names[1] == "a1:80", "restart: same active targets")
	vAssert(rsvc.pauseController.GetState() == svc.pauseController.GetState(), "restart: same running/paused/stopped state")
	vAssert(rsvc.pauseController.StopMessage == svc.pauseController.StopMessage && rsvc.pauseController.FailAfter == svc.pauseController.FailAfter, "restart: same stop message and max-pause")
	// a second snapshot written by the restored proxy equals the first
	vAssert(rest.saveStateSnapshot() == nil, "restart: restored proxy can snapshot")
	vAssert(vJSONEqual(first, vByName["/state"].data), "restart: the restored proxy writes the same state file")

	// ---- the same continuation on both ----
	cont := vChoose("continuation", 7) // 0 none, 1 resume, 2 stop, 3 pause, 4 rollout set, 5 rollout stop, 6 remove
	newMsg := vString("new_msg", 2)
	newPct := 50
	if cont == 4 {
		newPct = []int{0, 100}[vChoose("new_pct", 2)]
	}
	apply := func(r *Router) error {
		switch cont {
		case 1:
			return r.ResumeService("svc")
		case 2:
			return r.StopService("svc", 0, newMsg)
		case 3:
			return r.PauseService("svc", 0, maxPause)
		case 4:
			return r.SetRolloutSplit("svc", newPct, []string{allowV})
		case 5:
			return r.StopRollout("svc")
		case 6:
			return r.RemoveService("svc")
		}
		return nil
	}
	var e1, e2 error
	p1 := vCallRecovering(func() { e1 = apply(orig) })
	p2 := vCallRecovering(func() { e2 = apply(rest) })
	if p2 && !p1 {
		vAssert(false, "restart: a command that the original accepts must not crash the restored proxy")
		return
	}
	vAssert(p1 == p2, "restart: commands behave alike (panic)")
	vAssert(e1 == e2, "restart: every subsequent command gets the same answer from the restored proxy")

	// ---- the same request on both ----
	method := vIteStr(vBool("post"), "POST", "GET")
	rhost := "h"
	if vChoose("other_host", 2) == 1 {
		rhost = "other"
	}
	rpath := "/"
	switch vChoose("req_path", 3) {
	case 1:
		rpath = "/app/x"
	case 2:
		rpath = "/up"
	}
	cookie := vString("cookie", 2)
	vAssume(vCookieValueOK(cookie, 2))
	hasCookie := vBool("has_cookie")
	vTrace = nil
	o1 := vServeOnce(orig, 1, method, rhost, rpath, cookie, hasCookie, false)
	t1 := vTraceString()
	vTrace = nil
	o2 := vServeOnce(rest, 2, method, rhost, rpath, cookie, hasCookie, false)
	t2 := vTraceString()
	vNote("orig: " + t1 + " / restored: " + t2)
	vAssert(o1.status == o2.status, "restart: the same request gets the same status")
	vAssert(o1.body == o2.body, "restart: ... from the same target / the same page")
	vAssert(o1.location == o2.location, "restart: ... the same redirect")
	vAssert(o1.message == o2.message, "restart: ... the same stop message")
	// list output
	l1, l2 := orig.ListActiveServices(), rest.ListActiveServices()
	vAssert(len(l1) == len(l2), "restart: list shows the same services")
	for k, d1 := range l1 {
		d2, ok := l2[k]
		vAssert(ok && d1 == d2, "restart: list shows the same hosts, paths, targets, state and TLS flag")
	}
	vCover(o1.status == 200, "forwarded request reachable")
	vCover(o1.status == 503, "stopped request reachable")
	if slice != 1 {
		vCover(rolloutMode == 2 && o1.body == "FROM[r0:80]", "rollout-served request reachable")
	}
	_ = time.Second
}

// The periodic probing of restored targets is irrelevant to restart equivalence (and covered by C09/C17): the probe
// loops are not started in this harness.
//
//verif:stub (*github.com/basecamp/kamal-proxy/internal/server.Target).BeginHealthChecks harness=HarnessRestartEquiv,HarnessSnapshotCrash,HarnessSnapshotOverlap,HarnessSnapshotOverlapDirected,HarnessRestoredCommands,HarnessRolloutRestart,HarnessRestartAfterRepeatedCommand,HarnessSnapshotFirstSave,HarnessSnapshotIOError
func stubBeginHealthChecksNoProbe(t *Target, c TargetStateConsumer) {
	t.stateConsumer = c
	t.becameHealthy = make(chan bool)
}

// HarnessRestartAfterRepeatedCommand: a gate command repeated with other arguments (stop with a new message, pause with
// a new max-pause, or a resume in between) through the Router: after a restart the proxy has the arguments of the
// latest command, like the proxy that wrote the file.
func HarnessRestartAfterRepeatedCommand() {
	vSortMode = 0
	vSnapshotReal = true
	topts := TargetOptions{HealthCheckConfig: HealthCheckConfig{Path: "/up", Interval: 1000, Timeout: 1000}}
	orig := NewRouter("/state")
	svc, err := NewService("svc", ServiceOptions{Hosts: []string{"h"}}, topts)
	vAssert(err == nil, "restart: service builds")
	svc.active = vDeployedBalancer([]string{"a0:80"}, topts)
	vAssert(vInstall(orig, svc), "restart: install")
	msg1, msg2 := vString("msg1", 2), vString("msg2", 2)
	d1, d2 := vDur("max_pause1"), vDur("max_pause2")
	step := func(which int, msg string, d time.Duration) {
		switch which {
		case 0:
			vAssert(orig.StopService("svc", 0, msg) == nil, "restart: stop accepted")
		case 1:
			vAssert(orig.PauseService("svc", 0, d) == nil, "restart: pause accepted")
		case 2:
			vAssert(orig.ResumeService("svc") == nil, "restart: resume accepted")
		}
	}
	step(vChoose("first", 3), msg1, d1)
	step(vChoose("second", 3), msg2, d2)
	rest := NewRouter("/state")
	vAssert(rest.RestoreLastSavedState() == nil, "restart: the state file restores")
	rsvc := rest.services.Get("svc")
	vAssert(rsvc != nil, "restart: the service is restored")
	if rsvc == nil {
		return
	}
	a, b := svc.pauseController, rsvc.pauseController
	vAssert(a.GetState() == b.GetState(), "restart: same running / paused / stopped state after repeated commands")
	vAssert(a.StopMessage == b.StopMessage && a.FailAfter == b.FailAfter, "restart: same stop message and max-pause after repeated commands")
	vCover(a.GetState() == PauseStateStopped, "stopped reachable")
	vCover(a.GetState() == PauseStatePaused, "paused reachable")
}
