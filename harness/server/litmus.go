package server

import (
	"errors"
	"io/fs"
	"net/http"
	"net/url"
	"os"
	"sync"
	"sync/atomic"
	"time"
)

// ---- litmus programs for the T2 engine itself (tools/selftest.sh): tiny concurrent programs with known answers.
// The code in this file is treated as program code by the race detector (unlike the other harness files). ----

type litmusBox struct {
	x  int
	mu sync.Mutex
	rw sync.RWMutex
}

// two unsynchronised increments: a data race must be reported, and a lost update (x == 1) must be reachable
func HarnessLitmusRacyCounter() {
	vT2(vParam("preemptions", 1), 2)
	b := &litmusBox{}
	var wg sync.WaitGroup
	wg.Add(2)
	for i := 0; i < 2; i++ {
		go func() { b.x++; wg.Done() }()
	}
	wg.Wait()
	vCover(b.x == 2, "both increments kept")
	vAssert(vRaceCount() == 0, "litmus: race expected here")
}

// the same under a mutex: no race, x == 2 on every schedule
func HarnessLitmusLockedCounter() {
	vT2(vParam("preemptions", 2), 2)
	b := &litmusBox{}
	var wg sync.WaitGroup
	wg.Add(2)
	for i := 0; i < 2; i++ {
		go func() { b.mu.Lock(); b.x++; b.mu.Unlock(); wg.Done() }()
	}
	wg.Wait()
	vAssert(b.x == 2, "litmus: locked counter is 2")
	vAssert(vRaceCount() == 0, "litmus: no race under the mutex")
	vCover(true, "ran")
}

// a read-modify-write split over two critical sections: no data race, but the lost update is reachable
func HarnessLitmusSplitSection() {
	vT2(vParam("preemptions", 1), 2)
	b := &litmusBox{}
	var wg sync.WaitGroup
	wg.Add(2)
	for i := 0; i < 2; i++ {
		go func() {
			b.mu.Lock()
			v := b.x
			b.mu.Unlock()
			b.mu.Lock()
			b.x = v + 1
			b.mu.Unlock()
			wg.Done()
		}()
	}
	wg.Wait()
	vAssert(vRaceCount() == 0, "litmus: no data race with split sections")
	vAssert(b.x == 2, "litmus: lost update expected here")
	vCover(b.x == 2, "both increments kept")
}

// opposite lock orders: the deadlock must be found
func HarnessLitmusDeadlock() {
	vT2(vParam("preemptions", 1), 2)
	var a, b sync.Mutex
	var wg sync.WaitGroup
	wg.Add(2)
	go func() { a.Lock(); b.Lock(); b.Unlock(); a.Unlock(); wg.Done() }()
	go func() { b.Lock(); a.Lock(); a.Unlock(); b.Unlock(); wg.Done() }()
	wg.Wait()
	vCover(true, "completed without deadlock on some schedule")
}

// a value handed over an unbuffered channel: ordered, no race
func HarnessLitmusChannelHandoff() {
	vT2(vParam("preemptions", 2), 2)
	b := &litmusBox{}
	ch := make(chan struct{})
	go func() { b.x = 7; ch <- struct{}{} }()
	<-ch
	vAssert(b.x == 7, "litmus: the write is visible after the receive")
	vAssert(vRaceCount() == 0, "litmus: channel handoff orders the accesses")
	vCover(true, "ran")
}

// readers share, a writer excludes: no race among readers and writer; two readers reading is not a race
func HarnessLitmusRWMutex() {
	vT2(vParam("preemptions", 2), 2)
	b := &litmusBox{}
	var wg sync.WaitGroup
	wg.Add(3)
	sum := int64(0)
	for i := 0; i < 2; i++ {
		go func() { b.rw.RLock(); atomic.AddInt64(&sum, int64(b.x)); b.rw.RUnlock(); wg.Done() }()
	}
	go func() { b.rw.Lock(); b.x = 5; b.rw.Unlock(); wg.Done() }()
	wg.Wait()
	vAssert(vRaceCount() == 0, "litmus: RWMutex orders readers and the writer")
	s := atomic.LoadInt64(&sum)
	vAssert(s == 0 || s == 5 || s == 10, "litmus: readers see the value before or after the write")
	vCover(s == 5, "one reader before and one after the writer")
}

// a reader that skips the lock races with the writer
func HarnessLitmusRWMutexMissingRLock() {
	vT2(vParam("preemptions", 1), 2)
	b := &litmusBox{}
	var wg sync.WaitGroup
	wg.Add(2)
	seen := 0
	go func() { seen = b.x; wg.Done() }()
	go func() { b.rw.Lock(); b.x = 5; b.rw.Unlock(); wg.Done() }()
	wg.Wait()
	_ = seen
	vAssert(vRaceCount() == 0, "litmus: race expected here")
	vCover(true, "ran")
}

// virtual clock: of two timers the earlier fires first; with equal durations both orders are explored
func HarnessLitmusTimers() {
	vT2(0, 4)
	d1, d2 := vDur("d1"), vDur("d2")
	first := 0
	select {
	case <-time.After(d1):
		first = 1
	case <-time.After(d2):
		first = 2
	}
	vAssert(!(first == 1 && d1 > d2), "litmus: a later timer never fires first")
	vAssert(!(first == 2 && d2 > d1), "litmus: a later timer never fires first")
	vCover(first == 1 && d1 == d2, "tie resolved for the first timer")
	vCover(first == 2 && d1 == d2, "tie resolved for the second timer")
}

// sync.Once and atomics synchronise
func HarnessLitmusOnceAtomic() {
	vT2(vParam("preemptions", 2), 2)
	b := &litmusBox{}
	var once sync.Once
	var ready atomic.Bool
	var wg sync.WaitGroup
	wg.Add(2)
	for i := 0; i < 2; i++ {
		go func() {
			once.Do(func() { b.x = 3; ready.Store(true) })
			if ready.Load() {
				vAssert(b.x == 3, "litmus: the initialised value is visible once the flag is set")
			}
			wg.Done()
		}()
	}
	wg.Wait()
	vAssert(vRaceCount() == 0, "litmus: Once and atomics order the accesses")
	vCover(true, "ran")
}

// the os error sentinels are usable (aliases of io/fs's) and are found through *os.PathError
func HarnessLitmusOsSentinels() {
	err := error(&os.PathError{Op: "stat", Path: "/x", Err: os.ErrNotExist})
	vAssert(os.ErrNotExist != nil, "litmus: os.ErrNotExist is initialised")
	vAssert(errors.Is(err, os.ErrNotExist), "litmus: errors.Is finds os.ErrNotExist through a PathError")
	vAssert(errors.Is(err, fs.ErrNotExist), "litmus: os.ErrNotExist is io/fs's")
	vCover(true, "ran")
}

// net/http's form parsing works although net/http's and mime's initializers are not run: FormValue on a form-encoded
// POST reads the body and finds the value (the multipartByReader sentinel is non-nil, mime.ParseMediaType parses)
func HarnessLitmusFormParse() {
	body := &vChunkReader{chunks: [][]byte{[]byte("k=v&a=1")}}
	req := &http.Request{Method: "POST", URL: &url.URL{Path: "/"}, Header: http.Header{}, Body: body}
	req.Header.Set("Content-Type", "application/x-www-form-urlencoded; charset=utf-8")
	vAssert(req.FormValue("k") == "v", "litmus: FormValue finds a value in a form-encoded body")
	vAssert(body.i == 1, "litmus: form parsing read the body")
	vCover(true, "ran")
}
