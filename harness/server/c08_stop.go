package server

import (
	"net/http"
	"net/url"

	"github.com/basecamp/kamal-proxy/internal/pages"
)

// ---- C08: stopped service / error pages ----

func vRootChain(next http.Handler) http.Handler {
	h, err := WithErrorPageMiddleware(pages.DefaultErrorPages, true, next)
	vAssert(err == nil, "pages: built-in pages load")
	return h
}

// HarnessErrorPages: page selection of the nested error-page middlewares (custom set inside, built-in set at the root).
func HarnessErrorPages() {
	statuses := []int{404, 413, 500, 502, 503, 504}
	status := statuses[vChoose("status", len(statuses))]
	page := vItoa(status) + ".html"
	customMode := vChoose("custom", 3) // 0 no custom set, 1 custom set with this page, 2 custom set without it
	customFails := vChoose("custom_exec_fails", 2) == 1
	builtinFails := vChoose("builtin_exec_fails", 2) == 1
	vBuiltinSet.execFails = builtinFails
	msg := vString("msg", 3)
	args := struct{ Message string }{msg}
	var inner http.Handler = http.HandlerFunc(func(w http.ResponseWriter, r *http.Request) {
		SetErrorResponse(w, r, status, args)
	})
	if customMode != 0 {
		vCustomSets["/pages"] = &vPageSet{name: "custom", has: map[string]bool{page: customMode == 1}, execFails: customFails}
		var err error
		inner, err = WithErrorPageMiddleware(vDirFS("/pages"), false, inner)
		vAssert(err == nil, "pages: custom pages load")
	}
	root := vRootChain(inner)
	w := vNewRecorder()
	root.ServeHTTP(w, &http.Request{Method: "GET", URL: &url.URL{Path: "/"}, Header: http.Header{}})
	w.finish()

	vAssert(w.status == status, "pages: the error status reaches the client")
	vAssert(w.hdr.Get("Content-Type") == "text/html; charset=utf-8", "pages: html content type")
	customOK := customMode == 1 && !customFails
	builtinOK := vBuiltinSet.has[page] && !builtinFails
	switch {
	case customOK:
		vAssert(string(w.body) == "PAGE[custom/"+page+"]", "pages: the service's custom page is used when it has one for the status")
	case builtinOK:
		vAssert(string(w.body) == "PAGE[builtin/"+page+"]", "pages: otherwise the built-in page is used")
	default:
		vAssert(string(w.body) == "<h1>"+vItoa(status)+" "+http.StatusText(status)+"</h1>", "pages: without any page the plain fallback is written by the root only")
	}
	if customOK || builtinOK {
		vAssert(len(vRenders) == 1, "pages: exactly one page rendered")
		got, ok := vRenders[0].args.(struct{ Message string })
		vAssert(ok && got.Message == msg, "pages: template arguments reach the renderer unchanged")
		vAssert(len(vRenders) == 1 && vRenders[0].escaping, "pages: pages are rendered by the HTML-escaping template engine")
	}
	vCover(customOK, "custom page reachable")
	vCover(!customOK && builtinOK, "built-in page reachable")
	vCover(!customOK && !builtinOK, "fallback reachable")
}

// HarnessStop503: pause state machine x commands, then one request through the real chain.
func HarnessStop503() {
	customMode := vChoose("custom", 3)
	opts := ServiceOptions{}
	if customMode != 0 {
		opts.ErrorPagePath = "/pages"
		vCustomSets["/pages"] = &vPageSet{name: "custom", has: map[string]bool{"503.html": customMode == 1}}
	}
	topts := TargetOptions{HealthCheckConfig: HealthCheckConfig{Path: "/up"}}
	s, err := NewService("svc", opts, topts)
	vAssert(err == nil, "stop: service builds")
	s.active = vBalancer("t1")
	state := PauseStateRunning
	msg := ""
	maxPause := vDuration("maxpause")
	vAssume(maxPause >= 0 && maxPause < 1<<40)
	drain := vDuration("drain")
	vAssume(drain >= 0 && drain < 1<<40)
	msg0 := vString("msg0", vParam("msgcap", 3))
	switch vChoose("pre", 3) {
	case 1:
		vAssert(s.Pause(drain, maxPause) == nil, "stop: pause ok")
		state = PauseStatePaused
	case 2:
		vAssert(s.Stop(drain, msg0) == nil, "stop: stop ok")
		state, msg = PauseStateStopped, msg0
	}
	msg1 := vString("msg1", vParam("msgcap", 3))
	cur := s
	switch vChoose("cmd", 7) {
	case 1:
		vAssert(s.Stop(drain, msg1) == nil, "stop: stop ok")
		state, msg = PauseStateStopped, msg1
	case 2:
		vAssert(s.Pause(drain, maxPause) == nil, "stop: pause ok")
		state, msg = PauseStatePaused, ""
	case 3:
		vAssert(s.Resume() == nil, "stop: resume ok")
		state, msg = PauseStateRunning, ""
	case 4: // redeploy: a copy with new options takes over; state must be unaffected
		c, err := s.CopyWithOptions(opts, topts)
		vAssert(err == nil, "stop: copy ok")
		c.UpdateLoadBalancer(vBalancer("t2"), TargetSlotActive)
		cur = c
	case 5:
		s.UpdateLoadBalancer(vBalancer("r1"), TargetSlotRollout)
		s.SetRolloutSplit(50, nil)
	case 6:
		s.StopRollout()
	}
	vAssert(cur.pauseController.GetState() == state, "stop: running/paused/stopped state follows the commands (unaffected by redeploy and rollout commands)")

	method := "GET"
	if vChoose("post", 2) == 1 {
		method = "POST"
	}
	path := vString("path", vParam("pathcap", 7))
	req := &http.Request{Method: method, URL: &url.URL{Path: path}, Header: http.Header{}, Host: "h"}
	if vChoose("strip_ctx", 2) == 1 {
		// as Router.ServeHTTP attaches it for a service deployed under /app with prefix stripping
		req = vWithStripContext(req, "/app")
	}
	root := vRootChain(http.HandlerFunc(cur.ServeHTTP))
	w := vNewRecorder()
	nForwardBefore := len(vForwards)
	root.ServeHTTP(w, req)
	w.finish()
	forwarded := len(vForwards) - nForwardBefore
	health := vAnd(method == "GET", path == "/up")
	switch state {
	case PauseStateRunning:
		vAssert(forwarded == 1 && w.status == 200, "stop: a running (resumed) service forwards")
	case PauseStateStopped:
		vAssert(forwarded == 0, "stop: nothing is forwarded while stopped")
		if health {
			vAssert(w.status == 200 && len(w.body) == 0, "stop: GET on exactly the health-check path gets 200 from the proxy")
		} else {
			vAssert(w.status == 503, "stop: stopped => 503")
			if customMode == 1 {
				vAssert(string(w.body) == "PAGE[custom/503.html]", "stop: custom 503 page if the service has one")
			} else {
				vAssert(string(w.body) == "PAGE[builtin/503.html]", "stop: built-in 503 page otherwise")
			}
			vAssert(len(vRenders) == 1, "stop: one page rendered")
			got, ok := vRenders[0].args.(struct{ Message string })
			vAssert(ok && got.Message == msg, "stop: the operator's message reaches the page renderer byte-identical")
			vAssert(len(vRenders) == 1 && vRenders[0].escaping, "stop: the message is inserted by the HTML-escaping template engine")
		}
	case PauseStatePaused:
		vAssert(forwarded == 0, "stop: nothing is forwarded while paused")
		if health {
			vAssert(w.status == 200, "stop: health check answered 200 while paused")
		} else {
			vAssert(w.status == 504, "stop: a request held longer than max-pause gets 504")
			vAssert(vNow() == int64(maxPause), "stop: ... exactly when its own max-pause expires")
		}
	}
	vCover(state == PauseStateStopped && !health && w.status == 503, "stopped 503 reachable")
	vCover(state == PauseStatePaused && w.status == 504, "paused 504 reachable")
	vCover(health && state != PauseStateRunning, "health check short-circuit reachable")
}
