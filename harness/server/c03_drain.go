package server

// ---- C03: drained targets are quiescent when deploy / pause / stop returns (T2) ----

// HarnessDrainQuiescentDirected: the same scenario and oracle, with one client whose schedule is directed instead of
// searched: it is descheduled right after obtaining its service (redeploy) / right after passing the pause gate
// (pause, stop) and resumes when the command has returned. No scheduling budget is needed to reach these histories.
func HarnessDrainQuiescentDirected() {
	vDirected = true
	HarnessDrainQuiescent()
}

var vDirected bool

func HarnessDrainQuiescent() {
	vT2(vParam("preemptions", 1), vParam("firings", 10))
	vWatchPauseEvents()
	vWatchDrainState()
	if !vDirected && vParam("policies", 2) == 2 {
		// both default scheduling policies (earliest-started first / latest-started first) are explored
		vSchedPolicy(vChoose("sched_policy", 2))
	}
	vSortMode = 0
	C := vParam("clients", 1)
	router := NewRouter("/state")
	interval := vDur("interval")
	vAssume(interval > 0)
	ptimeout := vDur("probe_timeout")
	deployTimeout := vDur("deploy_timeout")
	drainTimeout := vDur("drain_timeout")
	topts := TargetOptions{HealthCheckConfig: HealthCheckConfig{Path: "/up", Interval: interval, Timeout: ptimeout}}
	svc, oldLB := vInstallOldService(router, topts)
	_ = svc
	twoOld := !vDirected && vParam("old_targets", 1) == 2
	if twoOld {
		// the service has two targets (requests alternate between them): both are drained against one deadline
		t2, _ := NewTarget("old1:80", topts)
		t2.state = TargetStateHealthy
		t2.stateConsumer = oldLB
		oldLB.all = append(oldLB.all, t2)
		oldLB.updateHealthyTargets()
	}
	cmd := vChoose("command", 3) // 0 redeploy, 1 pause, 2 stop
	// rollout scenario: the service also has a rollout target, the clients have opted in to it, and the rollout may be
	// stopped (`rollout stop`) while their requests are in flight there; pause / stop must still drain that target
	rolloutScenario := !vDirected && vParam("rollout", 0) >= 1
	if rolloutScenario {
		vAssume(cmd != 0)
		t, _ := NewTarget("rold:80", topts)
		t.state = TargetStateHealthy
		rlb := &LoadBalancer{healthy: TargetList{}, all: TargetList{t}}
		t.stateConsumer = rlb
		rlb.updateHealthyTargets()
		svc.rollout = rlb
		svc.rolloutController = NewRolloutController(0, []string{"x"})
	}
	if fc := vParam("only_command", -1); fc >= 0 {
		vAssume(cmd == fc)
	}
	if vDirected {
		vHoldAfterLookup = cmd == 0
		vHoldAfterGate = cmd != 0
	}
	if cmd == 0 {
		lat := vDur("lat")
		vAssume(lat < ptimeout && lat < deployTimeout) // the new target is healthy in time
		vProbeScripts["new0:80"] = &vProbeScript{parkAfter: true, outcomes: []vProbeOutcome{{kind: vProbeStatus, status: 200, latency: lat}}}
	}
	root := vRootChain(router)
	done := 0
	spawnClients := []func(){}
	clientsParked := 0
	clientFirst := vDirected && vChoose("client_first", 2) == 1
	// holder scenario: request 0 is in flight on the old target, never finishing, before anything else happens, so the
	// drain has something to wait for while the other requests race with it
	holder := !vDirected && vParam("holder", 0) == 1
	if C > 1 {
		// Drain ranges four times over its copy of the in-flight map; the order among several entries only permutes
		// cancellations issued at one virtual instant, so one order is explored
		vFixMapOrderType("inflightMap")
	}
	for c := 0; c < C; c++ {
		c := c
		if holder && c == 0 {
			vProxyPlans[0] = &vProxyPlan{never: true}
			go func() {
				vDaemon()
				vDoRequest(root, 0, "h", "/")
				done++
			}()
			vBlockUntil(func() bool { return vIndexOf("forward_begin", 0) >= 0 })
			continue
		}
		arrival := vIntRange("arrival"+vItoa(c), 0, vParam("arrival_points", 8))
		if clientFirst {
			vAssume(arrival == 0)
		}
		plan := &vProxyPlan{}
		planKind := vChoose("plan"+vItoa(c), vParam("plans", 4))
		if fp := vParam("racer_plan", -1); fp >= 0 {
			vAssume(planKind == fp)
		}
		switch planKind {
		case 0:
			plan.service = vDur("service_time" + vItoa(c))
			hdr := vChoose("request_header"+vItoa(c), 3)
			plan.upgradeHeader, plan.eventStream = hdr == 1, hdr == 2
		case 1:
			plan.never = true
		case 2:
			plan.hijack = true
		case 3:
			plan.hijackLate = true
			plan.service = vDur("upgrade_after" + vItoa(c))
		case 4: // an upgraded connection that its peer closes after a while (the session ends by itself)
			plan.hijack, plan.hijackEnds = true, true
			plan.service = vDur("session_time" + vItoa(c))
		}
		// rollout=1: every client has opted in to the rollout targets; rollout=2: every second one (requests in flight on
		// the active and on the rollout targets at the same time)
		plan.cookie = rolloutScenario && (vParam("rollout", 0) == 1 || c%2 == 1)
		vProxyPlans[c] = plan
		spawnClients = append(spawnClients, func() {
			go func() {
				vDaemon() // may stay parked at a never-answering target that is not drained
				clientsParked++
				vArriveAfter(arrival)
				clientsParked--
				vDoRequest(root, c, "h", "/")
				done++
			}()
		})
	}
	commandFirst := !clientFirst && (vDirected || (vParam("orders", 2) == 2 && vChoose("command_started_first", 2) == 1))
	if !commandFirst {
		for _, f := range spawnClients {
			f()
		}
	}
	if clientFirst {
		// the client reaches its hold point before the command is issued
		vBlockUntil(func() bool { return vHeld == C })
	}
	if !vDirected && !commandFirst && vChoose("target_turns_unhealthy", 2) == 1 {
		// the target fails a probe while the request is in flight on it: it leaves the rotation but must still be drained
		vBlockUntil(func() bool {
			return vIndexOf("forward_begin", -1) >= 0 || vClientResults[0] != nil || clientsParked > 0
		})
		if vIndexOf("forward_begin", -1) >= 0 {
			svc.active.all[0].HealthCheckCompleted(false)
		}
	}
	if rolloutScenario && !commandFirst && vChoose("rollout_stopped_first", 2) == 1 {
		vBlockUntil(func() bool {
			return vIndexOf("forward_begin", -1) >= 0 || vClientResults[0] != nil || clientsParked > 0
		})
		vAssert(router.StopRollout("svc") == nil, "drain: rollout stop accepted")
	}
	// the command runs in its own goroutine; whether it or the clients were started first decides whom the
	// delay-bounded scheduler favours, so both orders are explored
	begin := vNow()
	var err error
	var ret int64
	retIdx := -1
	cmdDone := false
	runCmd := func() {
		switch cmd {
		case 0:
			err = router.DeployService("svc", []string{"new0:80"}, ServiceOptions{Hosts: []string{"h"}}, topts, deployTimeout, drainTimeout)
		case 1:
			err = router.PauseService("svc", drainTimeout, 1<<30)
		case 2:
			err = router.StopService("svc", drainTimeout, "stopped")
		}
		ret = vNow()
		vEmit(vEvent{kind: "cmd_return", ok: err == nil})
		retIdx = len(vTrace) - 1
		vCmdReturned = true
		vRelease = true
		cmdDone = true
	}
	go runCmd()
	if commandFirst {
		for _, f := range spawnClients {
			f()
		}
	}
	vBlockUntil(func() bool { return cmdDone })
	// let the clients finish (a paused request waits for its max-pause; never-ending ones were cancelled by the drain)
	vBlockUntil(func() bool { return vClientsSettled(C) })
	vNote(vTraceString())
	vAssert(err == nil, "drain: command succeeds")

	drainedTargets := []string{"old:80"}
	if twoOld {
		drainedTargets = []string{"old:80", "old1:80"}
	}
	if rolloutScenario {
		drainedTargets = []string{"rold:80"}
		if vParam("rollout", 0) == 2 {
			drainedTargets = []string{"old:80", "rold:80"}
		}
	}
	drainBeginIdx := vIndexOf("drain_begin", -1)
	drainBeginAt := int64(-1)
	if drainBeginIdx >= 0 {
		drainBeginAt = vTrace[drainBeginIdx].at
	}
	for _, drained := range drainedTargets {
		for i, e := range vTrace {
			if e.kind != "forward_begin" || e.target != drained {
				continue
			}
			// find its end
			endIdx := -1
			for j := i + 1; j < len(vTrace); j++ {
				if vTrace[j].kind == "forward_end" && vTrace[j].req == e.req && vTrace[j].target == drained {
					endIdx = j
					break
				}
			}
			// a request that obtained the service object the redeploy replaced ("stale"), or that passed the pause gate before
			// the pause/stop took effect
			stale := false
			if li := vIndexOf("lookup", e.req); cmd == 0 && li >= 0 {
				got, _ := vTrace[li].obj.(*Service)
				stale = got != nil && got != router.serviceForName("svc")
			}
			pastGate := false
			if gi := vLastGateLeave(i); cmd != 0 && gi >= 0 {
				pastGate = drainBeginIdx >= 0 && vGateEnterBefore(gi) < drainBeginIdx && PauseWaitAction(vTrace[gi].status) == PauseWaitActionProceed
			}
			class := ""
			// (the instant the target left the draining state, not the return of Drain: the latter is later by the
			// notification of the load balancer)
			drainEndIdx := vIndexOf("draining_cleared", -1)
			if drainEndIdx >= 0 && i > drainEndIdx {
				// only a request that reaches the target after its drain completed can belong to these classes: during the
				// drain StartRequest refuses, and whatever it admitted before is waited for
				if stale {
					class = " [request that looked up the service before the swap]"
				} else if pastGate {
					class = " [request that passed the pause gate before the pause]"
				}
			}
			if i > retIdx {
				vAssert(false, "drain: no request is sent to a drained target after the command returned"+class)
			} else if !(endIdx >= 0 && vTrace[endIdx].at <= ret) {
				// (virtual time: a request cancelled by the drain ends at the instant of its cancellation)
				vAssert(false, "drain: no request is still being served by a drained target when the command returns"+class)
			}
			// in flight when draining began: runs to completion within the timeout, else cut off with 504; upgraded: closed at once
			if drainBeginIdx >= 0 && i < drainBeginIdx && (endIdx < 0 || endIdx > drainBeginIdx) {
				plan := vProxyPlans[e.req]
				res := vClientResults[e.req]
				deadline := drainBeginAt + int64(drainTimeout)
				if res == nil {
					vAssert(false, "drain: a request in flight when draining began is still unanswered")
				} else if plan.hijackLate {
					// the upgrade completed (or not) during the drain window: closed by the deadline at the latest
					vAssert(endIdx >= 0 && vTrace[endIdx].at <= deadline, "drain: a connection that upgrades during the drain is closed by the drain deadline at the latest")
				} else if plan.hijack {
					vAssert(endIdx >= 0 && vTrace[endIdx].at == drainBeginAt, "drain: upgraded connections are closed as soon as draining begins")
				} else if plan.never {
					vAssert(res.status == 504 && res.at == deadline, "drain: a request still running at the drain deadline is cut off with 504 at the deadline")
				} else {
					finish := e.at + int64(plan.service)
					if finish < deadline {
						vAssert(res.status == 200 && res.body == "FROM["+drained+"]" && res.at == finish, "drain: a request finishing within the drain timeout completes normally")
					}
					if finish > deadline {
						vAssert(res.status == 504 && res.at == deadline, "drain: a request still running at the drain deadline is cut off with 504 at the deadline")
					}
				}
			}
		}
	}
	if cmd == 0 {
		vAssert(ret <= begin+int64(deployTimeout)+int64(drainTimeout), "drain: deploy returns within deploy-timeout + drain-timeout")
	} else {
		vAssert(ret <= begin+int64(drainTimeout), "drain: pause/stop return within the drain timeout")
	}
	vCover(drainBeginIdx >= 0, "drain reachable")
	vCover(vClientResults[0] != nil && vClientResults[0].status == 504, "504 at drain deadline reachable")
	vCover(holder || vClientResults[0] != nil && vClientResults[0].status == 200, "normal completion reachable")
}
