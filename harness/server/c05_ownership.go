package server

import "slices"

// ---- C04 (table construction) and C05 (ownership) ----

var vSnapshotReal bool
var vSnapshots int

// The snapshot writer is the subject of C12; elsewhere it is skipped (counted).
//
//verif:stub (*github.com/basecamp/kamal-proxy/internal/server.Router).saveStateSnapshot
func stubSaveStateSnapshot(r *Router) error {
	if vSnapshotReal {
		return r.saveStateSnapshot()
	}
	vSnapshots++
	return nil
}

// TLS option syncing is the subject of HarnessTLSSync (C16); the table-construction harnesses summarise it away.
//
//verif:stub (*github.com/basecamp/kamal-proxy/internal/server.ServiceMap).syncTLSOptionsFromRootDomain harness=HarnessRouteBuild,HarnessOwnStep
func stubSyncTLSNoop(m *ServiceMap) {}

// ---- the sort in updateRequestServiceMap, decomposed: contract proved on the real slices.SortFunc
// (HarnessSortContract), call discipline asserted where it is used (HarnessRouteBuild / HarnessOwnStep) ----

var vSortMode int // 0 = run the real sort, 1 = summarise (record the call, check the comparator), 2 = capture comparator only
var vSortCalls [][]*pathBinding
var vSortCmp func(a, b *pathBinding) int
var vSortProbe int

//verif:stub slices.SortFunc[[]*github.com/basecamp/kamal-proxy/internal/server.pathBinding, *github.com/basecamp/kamal-proxy/internal/server.pathBinding]
func stubSortBindings(x []*pathBinding, cmp func(a, b *pathBinding) int) {
	switch vSortMode {
	case 0:
		slices.SortFunc(x, cmp) // the real instance (a stub may call the function it replaces)
	case 1:
		vSortCalls = append(vSortCalls, x)
		// the comparator orders by non-increasing prefix length (checked on two arbitrary bindings)
		vSortProbe++
		a := &pathBinding{pathPrefix: vString("probe_a"+vItoa(vSortProbe), 3)}
		b := &pathBinding{pathPrefix: vString("probe_b"+vItoa(vSortProbe), 3)}
		vAssert(cmp(a, b) == len(b.pathPrefix)-len(a.pathPrefix), "build: comparator is len(b.prefix) - len(a.prefix)")
	case 2:
		vSortCmp = cmp
	}
}

// vSortedOnce: the slice stored for a key is one that was handed to SortFunc in full (after its last append).
func vSortedOnce(bs []*pathBinding) bool {
	if len(bs) <= 1 {
		return true
	}
	ok := false
	for _, c := range vSortCalls {
		if len(c) == len(bs) && &c[0] == &bs[0] {
			ok = true
		}
	}
	return ok
}

// HarnessSortContract: the real slices.SortFunc instance with the real comparator of updateRequestServiceMap
// returns a permutation sorted by non-increasing prefix length.
func HarnessSortContract() {
	N := vParam("n", 4)
	// capture the real comparator closure
	vSortMode = 2
	m := NewServiceMap()
	m.services["x"] = &Service{name: "x", options: ServiceOptions{Hosts: []string{"h"}, PathPrefixes: []string{"/", "/a"}}}
	vCallMethod(m, "updateRequestServiceMap")
	vAssert(vSortCmp != nil, "sort: comparator captured")
	in := []*pathBinding{}
	for i := 0; i < N; i++ {
		in = append(in, &pathBinding{pathPrefix: vString("p"+vItoa(i), vParam("prefcap", 3))})
	}
	work := append([]*pathBinding{}, in...)
	vSortMode = 0
	stubSortBindings(work, vSortCmp)
	for i := 1; i < N; i++ {
		vAssert(len(work[i-1].pathPrefix) >= len(work[i].pathPrefix), "sort: result sorted by non-increasing prefix length")
	}
	for _, b := range in {
		n := 0
		for _, w := range work {
			if w == b {
				n++
			}
		}
		vAssert(n == 1, "sort: result is a permutation of the input")
	}
	vCover(N > 1 && work[0] != in[0], "sort moved something")
}

// vArbitraryService builds a Service with symbolic hosts / prefixes (shapes as Normalize produces them).
func vArbitraryService(tag, name string, maxHosts, maxPrefixes, hostCap, prefCap int) *Service {
	nh := 1 + vChoose(tag+"_nh", maxHosts)
	np := 1 + vChoose(tag+"_np", maxPrefixes)
	return vServiceWith(tag, name, nh, np, hostCap, prefCap)
}

// vServiceWith: exactly nh hosts and np prefixes (symbolic, possibly equal to one another).
func vServiceWith(tag, name string, nh, np, hostCap, prefCap int) *Service {
	hosts := []string{}
	for i := 0; i < nh; i++ {
		hosts = append(hosts, vString(tag+"_h"+vItoa(i), hostCap))
	}
	prefixes := []string{}
	for i := 0; i < np; i++ {
		p := vString(tag+"_p"+vItoa(i), prefCap)
		vAssume(vValidPrefix(p))
		prefixes = append(prefixes, p)
	}
	return &Service{name: name, options: ServiceOptions{Hosts: hosts, PathPrefixes: prefixes}, pauseController: NewPauseController()}
}

// vOwns: service s lists the pair (h, p).
func vOwns(s *Service, h, p string) bool {
	inH, inP := false, false
	for _, x := range s.options.Hosts {
		inH = vOr(inH, x == h)
	}
	for _, x := range s.options.PathPrefixes {
		inP = vOr(inP, x == p)
	}
	return vAnd(inH, inP)
}

// vConflict: some pair of a is also listed by b.
func vConflict(a, b *Service) bool {
	c := false
	for _, h := range a.options.Hosts {
		for _, p := range a.options.PathPrefixes {
			c = vOr(c, vOwns(b, h, p))
		}
	}
	return c
}

// vCheckInv asserts the representation invariant of requestServiceMap w.r.t. the services in svcs
// (exactly the listed pairs, sorted by non-increasing prefix length) and returns the number of bindings.
func vCheckInv(m *ServiceMap, svcs []*Service, what string) {
	vMapOrderFixed(true)
	// (1) every listed pair is present under its host, bound to its service
	total := 0
	for _, s := range svcs {
		for _, h := range s.options.Hosts {
			for _, p := range s.options.PathPrefixes {
				total++
				found := false
				for _, b := range m.requestServiceMap[h] {
					found = vOr(found, vAnd(b.pathPrefix == p, b.service == s))
				}
				vAssert(found, what+": every listed (host,prefix) is routed to its service")
			}
		}
	}
	// (2) nothing else is present, (3) sorted
	count := 0
	for h, bs := range m.requestServiceMap {
		for _, b := range bs {
			count++
			listed := false
			for _, s := range svcs {
				listed = vOr(listed, vAnd(b.service == s, vOwns(s, h, b.pathPrefix)))
			}
			vAssert(listed, what+": every binding belongs to a deployed service that lists it")
		}
		_ = bs
		vAssert(vSortedOnce(bs), what+": the key's final slice was sorted (SortFunc called on it after its last append)")
	}
	vAssert(count == total, what+": one binding per listed pair")
	vMapOrderFixed(false)
}

// HarnessRouteBuild: Set/Remove rebuild the table correctly from ANY set of services, for every map iteration order.
func HarnessRouteBuild() {
	S := vParam("services", 2)
	// the per-key sort loop touches only its own key: its iteration order is fixed (order over m.services is explored)
	vFixMapOrderType("requestServiceMap")
	vSortMode = 1
	m := NewServiceMap()
	svcs := []*Service{}
	for i := 0; i < S; i++ {
		s := vServiceWith("s"+vItoa(i), "svc"+vItoa(i), vParam("prehosts", 2), vParam("preprefixes", 2), vParam("hostcap", 3), vParam("prefcap", 3))
		svcs = append(svcs, s)
		m.services[s.name] = s
	}
	// no structural assumption at all: even overlapping services must be indexed faithfully
	extra := vArbitraryService("x", "svc0", vParam("hosts", 2), vParam("prefixes", 2), vParam("hostcap", 3), vParam("prefcap", 3))
	switch vChoose("op", 3) {
	case 0: // Set of a new name
		extra.name = "new"
		m.Set(extra)
		svcs = append(svcs, extra)
	case 1: // Set replacing svc0
		m.Set(extra)
		svcs[0] = extra
	case 2: // Remove svc0
		m.Remove("svc0")
		svcs = svcs[1:]
	}
	vCheckInv(m, svcs, "build")
	vAssert(len(m.services) == len(svcs), "build: services map has exactly the deployed services")
	vCover(len(svcs) == S+1, "set-new reachable")
	vCover(len(svcs) == S-1, "remove reachable")
}

// HarnessOwnStep: one install / remove from an arbitrary table in which ownership is unique.
func HarnessOwnStep() {
	S := vParam("services", 2)
	vFixMapOrderType("requestServiceMap")
	vSortMode = 1
	r := NewRouter("/state")
	svcs := []*Service{}
	for i := 0; i < S; i++ {
		s := vServiceWith("s"+vItoa(i), "svc"+vItoa(i), vParam("prehosts", 2), vParam("preprefixes", 2), vParam("hostcap", 3), vParam("prefcap", 3))
		for _, o := range svcs {
			vAssume(!vConflict(s, o)) // Unique: no pair owned by two different services
		}
		svcs = append(svcs, s)
		r.services.services[s.name] = s
	}
	vCallMethod(r.services, "updateRequestServiceMap")

	if vChoose("op", 2) == 1 {
		// remove
		name := "svc" + vItoa(vChoose("victim", S+1))
		victim := r.services.Get(name)
		// the service is disposed first; give it empty balancers
		if victim != nil {
			victim.active = &LoadBalancer{}
		}
		err := r.RemoveService(name)
		vAssert((err == ErrorServiceNotFound) == (victim == nil), "own: remove fails iff the service is unknown")
		rest := []*Service{}
		for _, s := range svcs {
			if s != victim {
				rest = append(rest, s)
			}
		}
		vCheckInv(r.services, rest, "own/remove")
		if victim != nil {
			for _, h := range victim.options.Hosts {
				for _, p := range victim.options.PathPrefixes {
					vAssert(r.services.CheckAvailability("other", ServiceOptions{Hosts: []string{h}, PathPrefixes: []string{p}}) == nil, "own: remove releases every pair of the service")
				}
			}
		}
		vCover(victim != nil, "remove existing reachable")
		return
	}

	// install: new name or redeploy of svc0
	name := "new"
	redeploy := vChoose("redeploy", 2) == 1
	if redeploy {
		name = "svc0"
	}
	n := vArbitraryService("n", name, vParam("hosts", 2), vParam("prefixes", 2), vParam("hostcap", 3), vParam("prefcap", 3))
	conflict := false
	for _, o := range svcs {
		if o.name != name {
			conflict = vOr(conflict, vConflict(n, o))
		}
	}
	err, _ := vCallMethod(r, "installService", n).(error)
	vAssert((err == ErrorHostInUse) == conflict, "own: install rejected iff a pair is owned by a different service")
	vAssert(err == nil || err == ErrorHostInUse, "own: no other error")
	after := []*Service{}
	if err != nil {
		after = svcs
		vAssert(r.services.Get(name) != n, "own: rejected service not installed")
	} else {
		for _, o := range svcs {
			if o.name != name {
				after = append(after, o)
			}
		}
		after = append(after, n)
		vAssert(r.services.Get(name) == n, "own: installed")
		// uniqueness is preserved
		for i, a := range after {
			for j, b := range after {
				if i < j {
					vAssert(!vConflict(a, b), "own: no pair owned by two services after install")
				}
			}
		}
	}
	vCheckInv(r.services, after, "own/install")
	vAssert(vSnapshots == 1, "own: exactly one snapshot per install")
	vCover(err != nil, "conflict reachable")
	vCover(err == nil && redeploy, "redeploy reachable")
}

// HarnessOwnRace (T2): two concurrent installs of conflicting services: exactly one succeeds, for every interleaving.
func HarnessOwnRace() {
	vT2(vParam("preemptions", 2), 4)
	vFixMapOrderType("requestServiceMap")
	vSortMode = 1
	r := NewRouter("/state")
	h := vString("host", 2)
	a := &Service{name: "a", options: ServiceOptions{Hosts: []string{h}, PathPrefixes: []string{"/"}}, pauseController: NewPauseController()}
	b := &Service{name: "b", options: ServiceOptions{Hosts: []string{h}, PathPrefixes: []string{"/"}}, pauseController: NewPauseController()}
	var ea, eb error
	go func() { ea, _ = vCallMethod(r, "installService", a).(error) }()
	go func() { eb, _ = vCallMethod(r, "installService", b).(error) }()
	vJoinAll()
	vAssert((ea == nil) != (eb == nil), "race: of two concurrent deploys for the same pair exactly one succeeds")
	vAssert(ea == nil || ea == ErrorHostInUse, "race: loser gets the conflict error")
	vAssert(eb == nil || eb == ErrorHostInUse, "race: loser gets the conflict error")
	winner := a
	if ea != nil {
		winner = b
	}
	vAssert(r.services.Get(winner.name) == winner && len(r.services.services) == 1, "race: only the winner is installed")
	vAssert(vRaceCount() == 0, "race: no data race")
	vCover(ea == nil, "a wins reachable")
	vCover(eb == nil, "b wins reachable")
}

// HarnessDeployRace (T2): the same race through the public command: two overlapping deploys of different services that
// claim the same host (both with a healthy target): exactly one succeeds, the host is routed to the winner, the
// loser's target is no longer probed.
func HarnessDeployRace() {
	vT2(vParam("preemptions", 1), vParam("firings", 12))
	if vParam("policies", 2) == 2 {
		vSchedPolicy(vChoose("sched_policy", 2))
	}
	vSortMode = 0
	r := NewRouter("/state")
	topts := TargetOptions{HealthCheckConfig: HealthCheckConfig{Path: "/up", Interval: 1000, Timeout: 500}}
	vProbeScripts["a0:80"] = &vProbeScript{parkAfter: true, outcomes: []vProbeOutcome{{kind: vProbeStatus, status: 200, latency: vDur("lat_a")}}}
	vProbeScripts["b0:80"] = &vProbeScript{parkAfter: true, outcomes: []vProbeOutcome{{kind: vProbeStatus, status: 200, latency: vDur("lat_b")}}}
	vAssume(vProbeScripts["a0:80"].outcomes[0].latency < 500 && vProbeScripts["b0:80"].outcomes[0].latency < 500)
	var ea, eb error
	done := 0
	go func() {
		ea = r.DeployService("a", []string{"a0:80"}, ServiceOptions{Hosts: []string{"h"}}, topts, 5000, 0)
		done++
	}()
	go func() {
		eb = r.DeployService("b", []string{"b0:80"}, ServiceOptions{Hosts: []string{"h"}}, topts, 5000, 0)
		done++
	}()
	vBlockUntil(func() bool { return done == 2 })
	vAssert((ea == nil) != (eb == nil), "deploy race: of two overlapping deploys for the same host exactly one succeeds")
	vAssert((ea == nil || ea == ErrorHostInUse) && (eb == nil || eb == ErrorHostInUse), "deploy race: the loser gets the conflict error")
	winner := "a"
	if ea != nil {
		winner = "b"
	}
	list := r.ListActiveServices()
	_, okW := list[winner]
	vAssert(okW && len(list) == 1, "deploy race: only the winner is listed")
	req := vPlainRequest("/")
	req.Host = "h"
	svc, _ := r.serviceForRequest(req)
	vAssert(svc != nil && svc.name == winner, "deploy race: the host is routed to the winner")
	vCover(ea == nil, "a wins reachable")
	vCover(eb == nil, "b wins reachable")
}
