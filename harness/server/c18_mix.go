package server

import (
	"context"
	"net/http"
)

// ---- C18: concurrent commands, probes and traffic never corrupt the proxy (T2) ----

func vCommand(router *Router, which int, topts TargetOptions, tag string) {
	switch which {
	case 0:
		router.DeployService("svc", []string{"n" + tag + ":80"}, ServiceOptions{Hosts: []string{"h"}}, topts, 1000, 1000)
	case 1:
		router.SetRolloutTargets("svc", []string{"r" + tag + ":80"}, 1000, 1000)
	case 2:
		router.SetRolloutSplit("svc", 50, []string{"x"})
	case 3:
		router.StopRollout("svc")
	case 4:
		router.PauseService("svc", 1000, 1000)
	case 5:
		router.StopService("svc", 1000, "m")
	case 6:
		router.ResumeService("svc")
	case 7:
		router.RemoveService("svc")
	case 8:
		router.ListActiveServices()
	}
}

// HarnessCmdMix: two operator commands and one client request overlap on one service, from each pause / rollout
// pre-state (including a service restored from the state file); no panic, no deadlock, no data race.
func HarnessCmdMix() {
	vT2(vParam("preemptions", 1), vParam("firings", 8))
	vWatchPauseEvents()
	if vParam("policies", 1) == 2 {
		// latest-started-first as a second default policy: the request and the helpers spawned by the commands get to run
		// before the commands that were started earlier
		vSchedPolicy(vChoose("sched_policy", 2))
	}
	vSortMode = 0
	vSnapshotReal = true
	vMapOrderFixed(true)
	router := NewRouter("/state")
	topts := TargetOptions{HealthCheckConfig: HealthCheckConfig{Path: "/up", Interval: 1000, Timeout: 1000}}
	svc, _ := vInstallOldService(router, topts)
	switch vChoose("pause", vParam("pause_states", 3)) {
	case 1:
		svc.pauseController.Pause(1000)
	case 2:
		svc.pauseController.Stop("m0")
	}
	if vChoose("has_rollout", 2) == 1 {
		t, _ := NewTarget("rold:80", topts)
		t.state = TargetStateHealthy
		lb := &LoadBalancer{healthy: TargetList{}, all: TargetList{t}}
		t.stateConsumer = lb
		lb.updateHealthyTargets()
		svc.rollout = lb
		svc.rolloutController = NewRolloutController(50, []string{"x"})
	}
	if vParam("restored_states", 2) == 2 && vChoose("restored", 2) == 1 {
		// the same configuration after a restart
		vAssert(router.saveStateSnapshot() == nil, "mix: snapshot")
		for _, n := range []string{"old:80", "rold:80"} {
			vProbeScripts[n] = vHealthyScript()
		}
		router = NewRouter("/state")
		vAssert(router.RestoreLastSavedState() == nil, "mix: restore")
	}
	for _, n := range []string{"n1:80", "n2:80", "r1:80", "r2:80"} {
		vProbeScripts[n] = vHealthyScript()
	}
	root := vRootChain(router)
	c1 := vChoose("command1", 9)
	c2 := vChoose("command2", 9)
	// (ordered pairs: the delay-bounded scheduler favours the goroutine started first, so both orders are explored)
	if f := vParam("force1", -1); f >= 0 {
		vAssume(c1 == f)
	}
	if f := vParam("force2", -1); f >= 0 {
		vAssume(c2 == f)
	}
	// the request: plain, carrying the rollout cookie, or upgraded (hijacked connection that stays open until a drain
	// or the end of the run)
	kind := vChoose("request_kind", vParam("request_kinds", 3))
	withCookie := kind == 1
	upgraded := kind == 2
	done := 0
	reqDone := false
	vProxyPlans[0] = &vProxyPlan{service: 0, hijack: upgraded}
	go func() { vCommand(router, c1, topts, "1"); done++ }()
	go func() { vCommand(router, c2, topts, "2"); done++ }()
	go func() {
		vDaemon()
		req := vPlainRequest("/")
		req.Host = "h"
		req = req.WithContext(context.WithValue(context.Background(), vReqKey, 0))
		if withCookie {
			req.Header["Cookie"] = []string{RolloutCookieName + "=x"}
		}
		w := vNewRecorder()
		var rw http.ResponseWriter = w
		if upgraded {
			rw = vHijackRecorder{w}
		}
		root.ServeHTTP(rw, req)
		reqDone = true
	}()
	// both commands have returned and the request has been answered (or is held by a paused service)
	vBlockUntil(func() bool { return done == 2 && (reqDone || vAtGate > 0 || vOpenEnded[0]) })
	vCover(true, "mix explored")
}

// HarnessRestoredCommands: every command issued on a proxy restored from the state file, from each pause / rollout
// pre-state: no command handler may panic (a panic there terminates the whole process).
func HarnessRestoredCommands() {
	vSortMode = 0
	vSnapshotReal = true
	vMapOrderFixed(true)
	router := NewRouter("/state")
	topts := TargetOptions{HealthCheckConfig: HealthCheckConfig{Path: "/up", Interval: 1000, Timeout: 1000}}
	svc, _ := vInstallOldService(router, topts)
	switch vChoose("pause", 3) {
	case 1:
		svc.pauseController.Pause(1000)
	case 2:
		svc.pauseController.Stop("m0")
	}
	if vChoose("has_rollout", 2) == 1 {
		t, _ := NewTarget("rold:80", topts)
		t.state = TargetStateHealthy
		lb := &LoadBalancer{healthy: TargetList{}, all: TargetList{t}}
		t.stateConsumer = lb
		lb.updateHealthyTargets()
		svc.rollout = lb
		svc.rolloutController = NewRolloutController(50, []string{"x"})
	}
	vAssert(router.saveStateSnapshot() == nil, "restored: snapshot")
	for _, n := range []string{"old:80", "rold:80", "n1:80", "r1:80"} {
		vProbeScripts[n] = vHealthyScript()
	}
	restored := NewRouter("/state")
	vAssert(restored.RestoreLastSavedState() == nil, "restored: restore")
	which := vChoose("command", 9)
	panicked := vCallRecovering(func() { vCommand(restored, which, topts, "1") })
	vAssert(!panicked, "restored: no command panics on a restored proxy")
	// and a request afterwards is answered without a panic either
	root := vRootChain(restored)
	req := vPlainRequest("/")
	req.Host = "h"
	w := vNewRecorder()
	if restored.services.Get("svc") == nil || restored.services.Get("svc").pauseController.GetState() != PauseStatePaused {
		p2 := vCallRecovering(func() { root.ServeHTTP(w, req) })
		vAssert(!p2, "restored: serving after the command does not panic")
	}
	vCover(which == 6, "resume on a restored proxy reachable")
}

// HarnessRemoveDuringProbe: a service is removed (or redeployed) while a health probe of its target is in flight and
// completes with a state change (healthy -> unhealthy): the command returns, nothing deadlocks, no race.
func HarnessRemoveDuringProbe() {
	vT2(vParam("preemptions", 1), vParam("firings", 10))
	vSortMode = 0
	router := NewRouter("/state")
	topts := TargetOptions{HealthCheckConfig: HealthCheckConfig{Path: "/up", Interval: 1000, Timeout: 500}}
	lat := vDur("second_probe_latency")
	vAssume(lat < 500)
	vProbeScripts["a0:80"] = &vProbeScript{parkAfter: true, outcomes: []vProbeOutcome{
		{kind: vProbeStatus, status: 200, latency: 0},
		{kind: vProbeStatus, status: 500, latency: lat},
	}}
	vProbeScripts["n0:80"] = vHealthyScript()
	vAssert(router.DeployService("svc", []string{"a0:80"}, ServiceOptions{Hosts: []string{"h"}}, topts, 5000, 0) == nil, "remove during probe: deploy")
	// the command is issued after an arbitrary number of further events (e.g. when the second probe has begun)
	k := vIntRange("command_after", 0, 6)
	base := len(vTrace)
	vBlockUntil(func() bool { return len(vTrace) >= base+k || vProbeParked > 0 })
	done := false
	go func() {
		if vChoose("command", 2) == 0 {
			router.RemoveService("svc")
		} else {
			router.DeployService("svc", []string{"n0:80"}, ServiceOptions{Hosts: []string{"h"}}, topts, 5000, 0)
		}
		done = true
	}()
	vBlockUntil(func() bool { return done })
	vAssert(vRaceCount() == 0, "remove during probe: no data race")
	vCover(true, "remove during probe explored")
}
