package server

import (
	"errors"
	"io"
	"os"
	"path/filepath"
	"sort"
	"strings"
)

// ---- file-system model (harness level): *os.File values are identities, contents live in vFiles ----

type vFile struct {
	shared  *vFile // for handles on a named file: the file itself (content lives there)
	name    string
	data    []byte
	off     int
	closed  bool
	removed bool
	closes  int
	removes int
}

var vFiles = map[*os.File]*vFile{}
var vFileList []*vFile
var vByName = map[string]*vFile{}
var vCreateTempFail bool
var vWriteFails, vCloseFails, vRenameFails bool // reported I/O errors (the process keeps running)
var errVDisk = errors.New("disk error (model)")
var errVClosed = errors.New("file already closed (model)")

func vItoa(n int) string {
	if n == 0 {
		return "0"
	}
	s := ""
	for n > 0 {
		s = string(rune('0'+n%10)) + s
		n /= 10
	}
	return s
}

//verif:stub os.CreateTemp
func stubCreateTemp(dir, pattern string) (*os.File, error) {
	vFSStep()
	if vCreateTempFail {
		return nil, errVDisk
	}
	if dir == "" {
		dir = "/tmp"
	}
	f := &os.File{}
	vf := &vFile{name: dir + "/" + pattern + vItoa(len(vFileList))}
	vFiles[f] = vf
	vFileList = append(vFileList, vf)
	vByName[vf.name] = vf
	return f, nil
}

//verif:stub (*os.File).Write
func stubFileWrite(f *os.File, p []byte) (int, error) {
	vf := vFiles[f]
	if vf.closed {
		return 0, errVClosed
	}
	if vf.shared != nil {
		// write at this handle's offset into the shared file; a crash inside the write leaves a truncated document
		if vCrashAfter >= 0 && vFSOps == vCrashAfter {
			vf.shared.data = append(append([]byte{}, vf.shared.data[:vMin(vf.off, len(vf.shared.data))]...), vJSONTruncate(p)...)
			panic(vCrash{})
		}
		vFSOps++
		d := vf.shared.data
		if vf.off < len(d) {
			d = d[:vf.off]
		}
		vf.shared.data = append(append([]byte{}, d...), p...)
		vf.off += len(p)
		vFSStep()
		return len(p), nil
	}
	if vWriteFails {
		// the disk fills up part-way through: a truncated document is left in this (temporary) file and the error is reported
		t := vJSONTruncate(p)
		vf.data = append(vf.data[:vf.off], t...)
		vf.off += len(t)
		return len(t), errVDisk
	}
	if vCrashAfter >= 0 && vFSOps == vCrashAfter {
		// killed inside the write: a truncated document is left in this (temporary) file
		vf.data = append(vf.data[:vf.off], vJSONTruncate(p)...)
		panic(vCrash{})
	}
	vf.data = append(vf.data[:vf.off], p...)
	vf.off += len(p)
	if vCrashAfter >= 0 {
		vFSOps++
	}
	return len(p), nil
}

func vMin(a, b int) int {
	if a < b {
		return a
	}
	return b
}

//verif:stub (*os.File).Read
func stubFileRead(f *os.File, p []byte) (int, error) {
	vf := vFiles[f]
	if vf.closed {
		return 0, errVClosed
	}
	if vf.shared != nil {
		d := vf.shared.data
		if vf.off >= len(d) {
			return 0, io.EOF
		}
		n := copy(p, d[vf.off:])
		vf.off += n
		return n, nil
	}
	if vf.off >= len(vf.data) {
		if len(p) == 0 {
			return 0, nil
		}
		return 0, io.EOF
	}
	n := copy(p, vf.data[vf.off:])
	vf.off += n
	return n, nil
}

//verif:stub (*os.File).WriteTo
func stubFileWriteTo(f *os.File, w io.Writer) (int64, error) {
	vf := vFiles[f]
	if vf.closed {
		return 0, errVClosed
	}
	if vf.off >= len(vf.data) {
		return 0, nil
	}
	n, err := w.Write(vf.data[vf.off:])
	vf.off += n
	return int64(n), err
}

//verif:stub (*os.File).Seek
func stubFileSeek(f *os.File, offset int64, whence int) (int64, error) {
	vf := vFiles[f]
	if vf.closed {
		return 0, errVClosed
	}
	vf.off = int(offset)
	return offset, nil
}

//verif:stub (*os.File).Close
func stubFileClose(f *os.File) error {
	vf := vFiles[f]
	if vCrashAfter >= 0 {
		vFSStep()
	}
	vf.closes++
	if vf.closed {
		return errVClosed
	}
	vf.closed = true
	if vCloseFails {
		return errVDisk
	}
	return nil
}

//verif:stub (*os.File).Name
func stubFileName(f *os.File) string {
	return vFiles[f].name
}

//verif:stub os.Remove
func stubOsRemove(name string) error {
	if vCrashAfter >= 0 {
		vFSStep()
	}
	vf := vByName[name]
	if vf == nil || vf.removed {
		return errVDisk
	}
	vf.removed = true
	vf.removes++
	return nil
}

// vLiveTempFiles counts spill files that still exist.
func vLiveTempFiles() int {
	if !vSymbolic() {
		// native replay: real spill files in the temp directory (relative to the baseline taken at start)
		return vNativeTempFiles() - vNativeTempBaseline
	}
	n := 0
	for _, vf := range vFileList {
		if !vf.removed {
			n++
		}
	}
	return n
}

var vNativeTempBaseline = vNativeTempFiles()

func vNativeTempFiles() int {
	if vSymbolic() {
		return 0
	}
	m, _ := filepath.Glob(filepath.Join(os.TempDir(), "proxy-buffer-*"))
	return len(m)
}

// --- named files (the state file) ---

var vCreateFails, vOpenFails bool
var vCrashAfter = -1 // crash point: the process is killed after this many file-system operations (-1: never)
var vFSOps int

type vCrash struct{}

// vFSStep counts a file-system operation boundary; at the chosen crash point the process dies (panic unwinds to the harness).
func vFSStep() {
	if vCrashAfter >= 0 && vFSOps == vCrashAfter {
		panic(vCrash{})
	}
	vFSOps++
}

//verif:stub os.Create
func stubOsCreate(name string) (*os.File, error) {
	vFSStep()
	if vCreateFails {
		return nil, errVDisk
	}
	vf := vByName[name]
	if vf == nil || vf.removed {
		vf = &vFile{name: name}
		vByName[name] = vf
	}
	vf.data = nil // O_TRUNC
	f := &os.File{}
	vFiles[f] = &vFile{name: name, shared: vf}
	return f, nil
}

//verif:stub os.Open
func stubOsOpen(name string) (*os.File, error) {
	vf := vByName[name]
	if vf == nil || vf.removed {
		return nil, &os.PathError{Op: "open", Path: name, Err: os.ErrNotExist}
	}
	if vOpenFails {
		return nil, errVDisk
	}
	f := &os.File{}
	vFiles[f] = &vFile{name: name, shared: vf}
	return f, nil
}

// rename is atomic: the destination has either its old or its new content, never a mixture
//
//verif:stub os.Rename
func stubOsRename(oldpath, newpath string) error {
	vFSStep()
	if vRenameFails {
		return errVDisk
	}
	src := vByName[oldpath]
	if src == nil || src.removed {
		return &os.PathError{Op: "rename", Path: oldpath, Err: os.ErrNotExist}
	}
	vByName[newpath] = &vFile{name: newpath, data: append([]byte{}, src.data...)}
	src.removed = true
	src.removes++
	delete(vByName, oldpath)
	vRenames++
	return nil
}

var vRenames int

// filepath.Glob over the model's named files, for patterns of the shape "<literal prefix>*" (matches within one
// directory level, as Glob does); any other pattern shape is outside the model.
//
//verif:stub path/filepath.Glob
func stubFilepathGlob(pattern string) ([]string, error) {
	if !strings.HasSuffix(pattern, "*") || strings.ContainsAny(pattern[:len(pattern)-1], "*?[\\") {
		vAssert(false, "model: glob pattern shape not modelled")
		return nil, filepath.ErrBadPattern
	}
	prefix := pattern[:len(pattern)-1]
	out := []string{}
	for name, vf := range vByName {
		if vf != nil && !vf.removed && strings.HasPrefix(name, prefix) && !strings.Contains(name[len(prefix):], "/") {
			out = append(out, name)
		}
	}
	sort.Strings(out)
	return out, nil
}

// os.Stat on the model's named files: only existence is modelled (callers look at the error).
//
//verif:stub os.Stat
func stubOsStat(name string) (os.FileInfo, error) {
	vf := vByName[name]
	if vf == nil || vf.removed {
		return nil, &os.PathError{Op: "stat", Path: name, Err: os.ErrNotExist}
	}
	return nil, nil
}
