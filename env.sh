# sourced by every script: offline Go toolchain = the repo's own go1.24.2 from the module cache
export GOMODCACHE_DIR="${GOMODCACHE_DIR:-/root/go/pkg/mod}"
export PATH="$GOMODCACHE_DIR/golang.org/toolchain@v0.0.1-go1.24.2.linux-amd64/bin:$PATH"
export GOTOOLCHAIN=local GOFLAGS=-mod=readonly GOPROXY=off GONOSUMDB="*" GONOSUMCHECK=1
export CGO_ENABLED=0
