package server

// Native demonstrations of the design-level known findings (known_findings.txt) against the REAL build: each test
// reproduces, with the real Router / Service / PauseController / Target code and real backends, the history that the
// symbolic checks report, by performing the descheduled request's steps by hand at the points where the engine
// deschedules it. A test PASSES when the finding is present (it asserts the defective outcome) and starts failing if
// the behaviour is ever repaired - at which point the finding must be removed from known_findings.txt.
//
// Run: /verif/tools/run_findings.sh   (go test -overlay, nothing is written under /repo)

import (
	"net/http"
	"net/http/httptest"
	"testing"
	"time"

	"github.com/stretchr/testify/require"
)

func findingRouter(t *testing.T) *Router {
	return NewRouter(t.TempDir() + "/state")
}

func findingBackend(t *testing.T, name string) string {
	_, target := testBackendWithHandler(t, func(w http.ResponseWriter, r *http.Request) {
		w.Write([]byte(name))
	})
	return target
}

// F2' (C03): a request that obtained the Service before a redeploy swapped it is forwarded to the REPLACED target after
// DeployService has returned (history: lookup(req) < swap < drain_end < cmd_return < forward_begin(req, old target)).
func TestFinding_C03_StaleServiceForwardedAfterDeployReturned(t *testing.T) {
	router := findingRouter(t)
	a, b := findingBackend(t, "old"), findingBackend(t, "new")
	require.NoError(t, router.DeployService("svc", []string{a}, defaultServiceOptions, defaultTargetOptions, DefaultDeployTimeout, DefaultDrainTimeout))

	req := httptest.NewRequest(http.MethodGet, "http://example.com/", nil)
	stale, _ := router.serviceForRequest(req) // the request is descheduled right after its lookup

	require.NoError(t, router.DeployService("svc", []string{b}, defaultServiceOptions, defaultTargetOptions, DefaultDeployTimeout, DefaultDrainTimeout))
	// deploy has returned: the operator may now remove the old target

	w := httptest.NewRecorder()
	stale.ServeHTTP(w, req) // the request resumes
	require.Equal(t, http.StatusOK, w.Result().StatusCode)
	require.Equal(t, "old", w.Body.String(), "known finding: served by the replaced target after deploy returned")
}

// F7' (C03): a request that passed the pause gate while the service was running is forwarded to the drained target
// after PauseService has returned.
func TestFinding_C03_PastGateForwardedAfterPauseReturned(t *testing.T) {
	router := findingRouter(t)
	a := findingBackend(t, "target")
	require.NoError(t, router.DeployService("svc", []string{a}, defaultServiceOptions, defaultTargetOptions, DefaultDeployTimeout, DefaultDrainTimeout))
	svc := router.serviceForName("svc")
	req := httptest.NewRequest(http.MethodGet, "http://example.com/", nil)

	action, _ := svc.pauseController.Wait() // the request passes the gate ...
	require.Equal(t, PauseWaitActionProceed, action)
	// ... and is descheduled before it claims a target

	require.NoError(t, router.PauseService("svc", time.Second, time.Second))
	// pause has returned: nothing should reach the targets until resume

	w := httptest.NewRecorder()
	svc.loadBalancerForRequest(req).ServeHTTP(w, req) // the request resumes
	require.Equal(t, "target", w.Body.String(), "known finding: forwarded while the service is paused")
}

// F7 (C07): the same request meets the target while Pause is draining it and is refused by the proxy (503).
func TestFinding_C07_PastGateRefusedWhileDraining(t *testing.T) {
	router := findingRouter(t)
	a := findingBackend(t, "target")
	require.NoError(t, router.DeployService("svc", []string{a}, defaultServiceOptions, defaultTargetOptions, DefaultDeployTimeout, DefaultDrainTimeout))
	svc := router.serviceForName("svc")
	req := httptest.NewRequest(http.MethodGet, "http://example.com/", nil)

	action, _ := svc.pauseController.Wait()
	require.Equal(t, PauseWaitActionProceed, action)

	// PauseService: the controller is paused and Drain has put the target into the draining state
	require.NoError(t, svc.pauseController.Pause(time.Second))
	target := svc.active.Targets()[0]
	previous := target.updateState(TargetStateDraining) // first step of Target.Drain
	defer target.updateState(previous)

	w := httptest.NewRecorder()
	svc.loadBalancerForRequest(req).ServeHTTP(w, req)
	require.Equal(t, http.StatusServiceUnavailable, w.Result().StatusCode, "known finding: issuing the pause refused a request")
}

// F2'' (C07): a request held by a paused service is released, after a redeploy, to the REPLACED targets.
func TestFinding_C07_HeldRequestReleasedToReplacedTargets(t *testing.T) {
	router := findingRouter(t)
	a, b := findingBackend(t, "old"), findingBackend(t, "new")
	require.NoError(t, router.DeployService("svc", []string{a}, defaultServiceOptions, defaultTargetOptions, DefaultDeployTimeout, DefaultDrainTimeout))
	require.NoError(t, router.PauseService("svc", time.Second, 10*time.Second))

	done := make(chan string, 1)
	go func() {
		req := httptest.NewRequest(http.MethodGet, "http://example.com/", nil)
		w := httptest.NewRecorder()
		router.ServeHTTP(w, req) // held by the pause
		done <- w.Body.String()
	}()
	time.Sleep(100 * time.Millisecond) // let it reach the gate

	require.NoError(t, router.DeployService("svc", []string{b}, defaultServiceOptions, defaultTargetOptions, DefaultDeployTimeout, DefaultDrainTimeout))
	require.NoError(t, router.ResumeService("svc"))

	select {
	case body := <-done:
		require.Equal(t, "old", body, "known finding: released to the targets the service had before the redeploy")
	case <-time.After(5 * time.Second):
		t.Fatal("held request was never released")
	}
}

// F8 (C07): resume immediately followed by pause: the woken waiter re-reads the state, sees 'paused' and proceeds.
func TestFinding_C07_ResumeThenPauseLetsWaiterProceedWhilePaused(t *testing.T) {
	p := NewPauseController()
	require.NoError(t, p.Pause(10*time.Second))

	// the waiter, up to the point where PauseController.Wait blocks in its select
	state, _, pauseChannel, _ := p.getWaitState()
	require.Equal(t, PauseStatePaused, state)

	require.NoError(t, p.Resume())
	require.NoError(t, p.Pause(10*time.Second)) // before the waiter runs again

	select {
	case <-pauseChannel: // the waiter wakes up (the old channel was closed by Resume) ...
	default:
		t.Fatal("waiter not woken")
	}
	// ... and Wait's code re-reads the state: anything but 'stopped' means proceed
	require.Equal(t, PauseStatePaused, p.GetState(), "known finding: the waiter proceeds although the service is paused again")
}

// F2 (C02): the request that obtained the Service before the redeploy swapped it reaches the replaced target while it
// is being drained and is answered 503 by the proxy, during a redeploy between two healthy target sets.
func TestFinding_C02_StaleServiceRefusedWhileDraining(t *testing.T) {
	router := findingRouter(t)
	release := make(chan struct{})
	_, a := testBackendWithHandler(t, func(w http.ResponseWriter, r *http.Request) {
		if r.URL.Path == "/slow" {
			<-release
		}
		w.Write([]byte("old"))
	})
	b := findingBackend(t, "new")
	require.NoError(t, router.DeployService("svc", []string{a}, defaultServiceOptions, defaultTargetOptions, DefaultDeployTimeout, DefaultDrainTimeout))

	// a slow request is in flight on the old target, so that its drain takes a while
	slowDone := make(chan struct{})
	go func() {
		router.ServeHTTP(httptest.NewRecorder(), httptest.NewRequest(http.MethodGet, "http://example.com/slow", nil))
		close(slowDone)
	}()
	time.Sleep(100 * time.Millisecond)

	req := httptest.NewRequest(http.MethodGet, "http://example.com/", nil)
	stale, _ := router.serviceForRequest(req) // the request is descheduled right after its lookup
	active, _, _ := stale.loadBalancers()
	oldTarget := active.Targets()[0]

	deployed := make(chan error, 1)
	go func() {
		deployed <- router.DeployService("svc", []string{b}, defaultServiceOptions, defaultTargetOptions, DefaultDeployTimeout, DefaultDrainTimeout)
	}()
	require.Eventually(t, func() bool { return oldTarget.State() == TargetStateDraining }, 5*time.Second, time.Millisecond)

	w := httptest.NewRecorder()
	stale.ServeHTTP(w, req) // the request resumes while the replaced target is draining
	require.Equal(t, http.StatusServiceUnavailable, w.Result().StatusCode, "known finding: proxy 503 during a redeploy between two healthy target sets")

	close(release)
	<-slowDone
	require.NoError(t, <-deployed)
}
