#!/usr/bin/env python3
# Regenerates MANIFEST.json from checks.json (claimed properties) and na.json (not claimed, with reasons).
import json, subprocess
checks = json.load(open('/verif/checks.json'))
meta = json.load(open('/verif/claims.json'))
props = [json.loads(l) for l in open('/verif/properties.jsonl')]
claimed = {c['id'] for c in checks if c['id'] in meta and meta[c['id']].get('claimed', True)}
man = {
 "version": 1,
 "setup_cmd": "cd /verif && . ./env.sh && cd engine && go build -o ../bin/gosym .",
 "hooks": {"guard": "verif", "enable": "go build/test -tags verif (no hook is currently needed: harnesses are injected with -overlay / go/packages Overlay, nothing is written under /repo)",
           "baseline_off_cmd": "cd /repo && go test -vet=off -count=1 -timeout 25m ./...", "source_commits": [], "add_only": True},
 "engines": [{"name": "gosym", "path": "/verif/engine", "serves_properties": sorted(claimed),
              "kind_free_text": "symbolic executor for go/ssa written for this task: loads /repo's working tree (go/packages + overlay harnesses), executes the real functions with symbolic inputs / map orders / schedules / virtual time, discharges assertions with z3 (SMT-LIB2 over bit-vectors), replays counterexamples natively with go test -overlay"}],
 "checks": [], "not_applicable": [],
 "notes": "All checks: ./check <ID> [--tier quick|thorough]; exit 0 ok, 1 VIOLATION (replayed), 2 INCONCLUSIVE (never success). Bounds per harness are in checks.json and are echoed in each evidence file."
}
for p in props:
    pid = p['id']
    if pid in claimed:
        m = meta[pid]
        man["checks"].append({
            "property_id": pid,
            "quick_cmd": f"./check {pid} --tier quick",
            "thorough_cmd": f"./check {pid} --tier thorough",
            "evidence_file": f"/verif/evidence/{pid}.json",
            "replay_cmd_template": "VERIF_REPLAY={path} (see replays/*.log; native: go test -overlay ... -run TestVerifReplay)",
            "engine": "gosym",
            "level_claimed": {"category": "model_checking", "text": m["level_text"], "design_ref": m.get("design_ref", "DESIGN.md §3 " + pid)},
            "level_note": m["level_note"],
            "technique": m.get("technique", "bounded symbolic execution of the real go/ssa code with z3 deciding every assertion for all values inside the bounds; counterexamples replayed natively"),
        })
    else:
        reason = meta.get(pid, {}).get("na_reason", "check not built yet in this session (solver-based harness pending); no other technique substituted")
        man["not_applicable"].append({"property_id": pid, "reason": reason})
json.dump(man, open('/verif/MANIFEST.json', 'w'), indent=1)
print("claimed:", sorted(claimed))
