package main

import (
	"fmt"
	"go/types"
	"os"
	"sort"
	"strings"

	"golang.org/x/tools/go/ssa"
)

// Program is the immutable, shared part: SSA program + harness metadata.
type Program struct {
	prog               *ssa.Program
	pkgs               map[string]*ssa.Package // by path
	stubs              map[string][]stubDecl   // callee full name -> harness stub functions
	runtimeErrorString types.Type
	atomicPkgs         map[string]bool
	repoPrefix         string
}

type stubDecl struct {
	fn        *ssa.Function
	harnesses map[string]bool // nil = all
}

type trailRec struct {
	opts []int
	idx  int
	kind string
}

type inputRec struct {
	Name     string
	Kind     string // bool,int,string,bytes
	Term     *Term
	Str      *Str
	W        int
	Unsigned bool
}

type Violation struct {
	Label   string
	Kind    string // assert, panic, deadlock, race
	Detail  string
	Model   map[string]any
	Choices []int
	Pos     string
}

type watch struct {
	field string
	fn    Value
}

type Machine struct {
	watches []watch
	pools   map[*Value][]Value // sync.Pool contents
	*Program
	solver *Solver
	pc     []*Term

	globals   map[*ssa.Global]*Value
	initDone  map[*ssa.Package]bool
	initStack []*ssa.Package

	// exploration state for the current execution
	forced []int
	pos    int
	trail  []trailRec
	base   int // trail records correspond to positions >= base

	steps, maxSteps int
	maxUnwind       int
	trace           bool
	mapOrderFixed   bool
	mapSeq          int
	symSeq          int

	harness string
	inputs  []*inputRec
	covers  map[string]bool
	unknown []string

	violations []*Violation
	pathDead   bool
	endReason  string

	funcsSeen map[*ssa.Function]bool
	stubsSeen map[string]int
	watch     map[string]bool

	tickers         map[*Value]*Timer
	builders        map[*Value]*Str
	atomicVC        map[*Value][]int
	raceSeen        map[string]bool
	assertsChecked  int
	params          map[string]int
	curFrame        *frame
	harnessFnCache  map[*ssa.Function]bool
	pinned          map[string]any
	keep            int
	note            string
	lastPanicSite   string
	kindStats       map[string]int
	known           map[uint64][]*Term
	knownHits       int
	fixedOrderTypes []string
	inputNames      map[string]bool

	// scheduler
	sched
}

func (m *Machine) noteFunc(fn *ssa.Function) {
	if !m.funcsSeen[fn] {
		m.funcsSeen[fn] = true
	}
}
func (m *Machine) noteStub(name string) { m.stubsSeen[name]++ }
func (m *Machine) noteUnknown(why string) {
	m.unknown = append(m.unknown, why)
}
func (m *Machine) traceCall(name string, args []Value) {}

func (m *Machine) isAtomicPkg(fn *ssa.Function) bool {
	if fn.Pkg == nil {
		if fn.Origin() != nil && fn.Origin().Pkg != nil {
			return m.atomicPkgs[fn.Origin().Pkg.Pkg.Path()]
		}
		return false
	}
	return m.atomicPkgs[fn.Pkg.Pkg.Path()]
}

func (m *Machine) stubFor(name string) *ssa.Function {
	for _, d := range m.stubs[name] {
		if d.harnesses == nil || d.harnesses[m.harness] {
			return d.fn
		}
	}
	return nil
}

// insideStub reports whether stub st is already active on the call stack (so that a stub may call the real function).
func (m *Machine) insideStub(fr *frame, st *ssa.Function) bool {
	for f := fr; f != nil; f = f.caller {
		if f.fn == st {
			return true
		}
	}
	return false
}

// ---- decisions ----

type pathDeadPanic struct{}

var trailDebug = os.Getenv("GOSYM_TRAIL") != ""

func (m *Machine) decideLazy(kind string, gen func() []int) int {
	if m.pos < len(m.forced) {
		v := m.forced[m.pos]
		m.pos++
		m.afterDecision()
		return v
	}
	opts := gen()
	if len(opts) == 0 {
		m.pathDead = true
		panic(execAbort{})
	}
	if m.kindStats != nil && len(opts) > 1 {
		k := kind
		if i := strings.Index(k, ":"); i >= 0 {
			k = k[:i]
		}
		m.kindStats[k] += len(opts) - 1
	}
	if trailDebug {
		fmt.Printf("DEC pos=%d kind=%s opts=%v\n", m.pos, kind, opts)
	}
	m.trail = append(m.trail, trailRec{opts: opts, kind: kind})
	m.forced = append(m.forced, opts[0])
	m.pos++
	m.afterDecision()
	return opts[0]
}

// afterDecision keeps the solver's scope stack aligned with the decision trail: scope i holds what was asserted
// after decision i-1. The first m.keep scopes survive from the previous path and are not re-sent.
func (m *Machine) afterDecision() {
	if m.pos <= m.keep {
		return // still inside the retained prefix
	}
	m.solver.PushScope()
}

func (m *Machine) solverLive() bool { return m.pos >= m.keep }

func (m *Machine) assume(c *Term) {
	if c.IsTrue() {
		return
	}
	m.pc = append(m.pc, c)
	m.addKnown(c)
	if m.solverLive() {
		m.solver.Assert(c)
	}
}

// addKnown records asserted literals so that repeated branch conditions need no solver call.
func (m *Machine) addKnown(c *Term) {
	if c.Op == "and" {
		for _, a := range c.Args {
			m.addKnown(a)
		}
		return
	}
	if c.size > 5000 {
		return
	}
	if m.known == nil {
		m.known = map[uint64][]*Term{}
	}
	h := c.Hash()
	m.known[h] = append(m.known[h], c)
}

func (m *Machine) isKnown(c *Term) bool {
	if c.size > 5000 {
		return false
	}
	if c.Op == "and" {
		for _, a := range c.Args {
			if !m.isKnown(a) {
				return false
			}
		}
		return true
	}
	for _, k := range m.known[c.Hash()] {
		if structEq(k, c) {
			return true
		}
	}
	return false
}

func (m *Machine) branch(c *Term) bool {
	if c.IsConst() {
		return c.IsTrue()
	}
	v := m.decideLazy("br", func() []int {
		if m.isKnown(c) {
			m.knownHits++
			return []int{1}
		}
		if m.isKnown(Not(c)) {
			m.knownHits++
			return []int{0}
		}
		rt := m.solver.CheckWith(c, false)
		if rt == Unsat {
			return []int{0}
		}
		rf := m.solver.CheckWith(Not(c), false)
		if rf == Unsat {
			if rt == Unknown {
				m.noteUnknown("branch")
			}
			return []int{1}
		}
		if rt == Unknown || rf == Unknown {
			m.noteUnknown("branch")
		}
		return []int{1, 0}
	})
	if v == 1 {
		m.assume(c)
		return true
	}
	m.assume(Not(c))
	return false
}

// ---- symbols ----

func (m *Machine) freshName(base string) string {
	m.symSeq++
	clean := strings.Map(func(r rune) rune {
		if (r >= 'a' && r <= 'z') || (r >= 'A' && r <= 'Z') || (r >= '0' && r <= '9') || r == '_' {
			return r
		}
		return '_'
	}, base)
	return fmt.Sprintf("%s!%d", clean, m.symSeq)
}

func (m *Machine) checkName(name string) {
	if m.inputNames == nil {
		m.inputNames = map[string]bool{}
	}
	if m.inputNames[name] {
		panic(unsupported{"duplicate symbolic input name " + name})
	}
	m.inputNames[name] = true
}

func (m *Machine) symBV(name string, w int) *Term {
	m.checkName(name)
	t := MkVar(m.freshName(name), BV(w))
	m.inputs = append(m.inputs, &inputRec{Name: name, Kind: "int", Term: t, W: w})
	if pv, ok := m.pinned[name]; ok {
		switch x := pv.(type) {
		case int64:
			m.assume(Eq(t, MkBV(w, uint64(x))))
		case int:
			m.assume(Eq(t, MkBV(w, uint64(x))))
		case float64:
			m.assume(Eq(t, MkBV(w, uint64(int64(x)))))
		}
	}
	return t
}

// symLin: a non-negative integer-valued input of at most `bits` bits, kept in linear integer arithmetic.
func (m *Machine) symLin(name string, bits int) *Term {
	m.checkName(name)
	t := MkLinVar(m.freshName(name), bits)
	m.inputs = append(m.inputs, &inputRec{Name: name, Kind: "int", Term: t, W: 64, Unsigned: true})
	// the static bounds must be stated to the solver explicitly (comparisons against them fold away)
	m.assume(And(mkLinCmp(&LinExpr{Vars: t.Lin.Vars, Coef: []int64{-1}}, 0), mkLinCmp(&LinExpr{K: -t.Hi, Vars: t.Lin.Vars, Coef: []int64{1}}, 0)))
	if pv, ok := m.pinned[name]; ok {
		switch x := pv.(type) {
		case int64:
			m.assume(Eq(t, MkBV(64, uint64(x))))
		case int:
			m.assume(Eq(t, MkBV(64, uint64(x))))
		case float64:
			m.assume(Eq(t, MkBV(64, uint64(int64(x)))))
		}
	}
	return t
}

func (m *Machine) symBool(name string) *Term {
	m.checkName(name)
	t := MkVar(m.freshName(name), BoolSort)
	m.inputs = append(m.inputs, &inputRec{Name: name, Kind: "bool", Term: t})
	if pv, ok := m.pinned[name].(bool); ok {
		m.assume(Eq(t, MkBool(pv)))
	}
	return t
}

func (m *Machine) symStr(name string, capN int) *Str {
	n := MkVar(m.freshName(name+"_len"), BV(64))
	bs := make([]*Term, capN)
	for i := range bs {
		bs[i] = MkVar(m.freshName(fmt.Sprintf("%s_b%d", name, i)), BV(8))
	}
	m.checkName(name)
	s := &Str{n: n, b: bs}
	m.assume(BvCmp("bvule", n, MkBV(64, uint64(capN))))
	m.inputs = append(m.inputs, &inputRec{Name: name, Kind: "string", Str: s})
	if pv, ok := m.pinned[name].(map[string]any); ok {
		if arr, ok := pv["bytes"].([]int); ok {
			m.assume(Eq(n, MkBV(64, uint64(len(arr)))))
			for i, b := range arr {
				if i < len(bs) {
					m.assume(Eq(bs[i], MkBV(8, uint64(b))))
				}
			}
		}
	}
	return s
}

// ---- globals and package init ----

func (m *Machine) globalAddr(g *ssa.Global) *Value {
	if p, ok := m.globals[g]; ok {
		return p
	}
	pkg := g.Pkg
	if pkg != nil && !m.initDone[pkg] {
		m.initPackage(pkg)
		if p, ok := m.globals[g]; ok {
			return p
		}
	}
	cell := zero(deref(g.Type()))
	p := &cell
	m.globals[g] = p
	return p
}

func (m *Machine) initPackage(pkg *ssa.Package) {
	if m.initDone[pkg] {
		return
	}
	m.initDone[pkg] = true
	// allocate all globals first
	var names []string
	for name := range pkg.Members {
		names = append(names, name)
	}
	sort.Strings(names)
	for _, name := range names {
		if g, ok := pkg.Members[name].(*ssa.Global); ok {
			if _, ok := m.globals[g]; !ok {
				cell := zero(deref(g.Type()))
				m.globals[g] = &cell
			}
		}
	}
	if pkg.Pkg.Path() == "io/fs" {
		// io/fs's initializer is not run; its error sentinels are internal/oserror's (as in the real package)
		if op := m.pkgs["internal/oserror"]; op != nil {
			for _, n := range []string{"ErrInvalid", "ErrPermission", "ErrExist", "ErrNotExist", "ErrClosed"} {
				if fg, ok := pkg.Members[n].(*ssa.Global); ok {
					if og, ok := op.Members[n].(*ssa.Global); ok {
						*m.globals[fg] = *m.globalAddr(og)
					}
				}
			}
		}
	}
	if pkg.Pkg.Path() == "os" {
		// os's initializer is not run; its error sentinels alias io/fs's (as in the real package)
		if fsp := m.pkgs["io/fs"]; fsp != nil {
			for _, n := range []string{"ErrInvalid", "ErrPermission", "ErrExist", "ErrNotExist", "ErrClosed"} {
				if og, ok := pkg.Members[n].(*ssa.Global); ok {
					if fg, ok := fsp.Members[n].(*ssa.Global); ok {
						*m.globals[og] = *m.globalAddr(fg)
					}
				}
			}
		}
	}
	if pkg.Pkg.Path() == "net/http" {
		// net/http's initializer is not run; the sentinel handlers panic with must be a distinct non-nil error
		if ep := m.pkgs["errors"]; ep != nil && ep.Func("New") != nil {
			for n, msg := range map[string]string{"ErrAbortHandler": "net/http: abort Handler", "ErrServerClosed": "http: Server closed"} {
				if g, ok := pkg.Members[n].(*ssa.Global); ok {
					*m.globals[g] = m.callSSA(nil, 0, ep.Func("New"), []Value{ConcStr(msg)}, nil)
				}
			}
		}
	}
	if pkg.Pkg.Path() == "net/http" {
		// the sentinel *multipart.Form that marks "MultipartReader was called" must be a distinct non-nil pointer: left nil
		// it equals every request's MultipartForm and form parsing returns at once without touching the body (C13_o)
		if g, ok := pkg.Members["multipartByReader"].(*ssa.Global); ok {
			if pt, ok := deref(g.Type()).Underlying().(*types.Pointer); ok {
				cell := zero(pt.Elem())
				*m.globals[g] = &cell
			}
		}
	}
	if skipInitPkgs[pkg.Pkg.Path()] {
		return
	}
	init := pkg.Func("init")
	if init == nil || init.Blocks == nil {
		return
	}
	// run the initializer; nested package initializers are skipped (they run lazily)
	m.cur.atomicExplicit++ // no scheduling inside init
	m.initStack = append(m.initStack, pkg)
	saveSteps := m.maxSteps
	m.maxSteps = m.steps + 5_000_000
	func() {
		defer func() {
			if p := recover(); p != nil {
				if u, ok := p.(unsupported); ok {
					panic(unsupported{"in init of " + pkg.Pkg.Path() + ": " + u.msg})
				}
				panic(p)
			}
		}()
		m.callSSA(nil, 0, init, nil, nil)
	}()
	m.maxSteps = saveSteps
	m.initStack = m.initStack[:len(m.initStack)-1]
	m.cur.atomicExplicit--
}

// packages whose init is not executed (globals stay zero); functions touching them must be modelled.
var skipInitPkgs = map[string]bool{
	"runtime": true, "unicode": true, "reflect": true, "internal/reflectlite": true, "os": true, "syscall": true,
	"internal/poll": true, "net": true, "crypto/tls": true, "crypto/x509": true, "time": true, "internal/godebug": true,
	"net/http": true, "log/slog": true, "log": true, "fmt": true, "html/template": true, "text/template": true,
	"encoding/json": true, "regexp": true, "regexp/syntax": true, "math/rand": true, "math/rand/v2": true,
	"crypto/rand": true, "mime": true, "net/textproto": true, "github.com/spf13/cobra": true, "github.com/spf13/pflag": true,
	"golang.org/x/crypto/acme": true, "golang.org/x/crypto/acme/autocert": true, "github.com/google/uuid": true,
	"testing": true, "github.com/stretchr/testify/require": true, "github.com/stretchr/testify/assert": true,
	"net/http/httptest": true, "internal/cpu": true, "internal/bytealg": true, "sync": true, "sync/atomic": true,
	"io/fs": true, "path/filepath": true, "net/rpc": true, "encoding/gob": true, "os/signal": true,
	"github.com/basecamp/kamal-proxy/internal/pages": true, "embed": true, "net/http/httputil": true, "internal/testlog": true,
	"bufio": true, "golang.org/x/net/http/httpguts": true, "vendor/golang.org/x/net/http/httpguts": true,
}

func isPkgInit(fn *ssa.Function) bool {
	return fn.Name() == "init" && fn.Synthetic == "package initializer"
}
