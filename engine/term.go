package main

// SMT terms with eager constant folding. Sorts: Bool, BitVec(w), Float64.

import (
	"fmt"
	"math"
	"math/bits"
	"strings"
	"sync"
)

type SortKind uint8

const (
	SBool SortKind = iota
	SBV
	SFP
	SInt
)

type Sort struct {
	K SortKind
	W int
}

var BoolSort = Sort{SBool, 0}
var FPSort = Sort{SFP, 64}

func BV(w int) Sort { return Sort{SBV, w} }

func (s Sort) String() string {
	switch s.K {
	case SBool:
		return "Bool"
	case SBV:
		return fmt.Sprintf("(_ BitVec %d)", s.W)
	default:
		return "(_ FloatingPoint 11 53)"
	}
}

type Term struct {
	Op     string
	Args   []*Term
	S      Sort
	C      uint64 // constant payload (BV value masked to W; bool 0/1; FP bits)
	Name   string // for Op=="var"
	P1, P2 int    // extract hi, lo / extension amount
	size   int
	h      uint64   // structural hash
	Lin    *LinExpr // Op=="lin" (BV64 value equal to this integer expression) or Op=="lincmp" (Lin <=/</= 0)
	Lo, Hi int64    // static bounds of a "lin" value (inclusive)
}

// LinExpr is K + sum Coef[i]*Vars[i] over mathematical integers (vars sorted by name, no zero coefficients).
// Time arithmetic is kept in this form so that the solver sees linear integer constraints instead of 64-bit adders.
type LinExpr struct {
	K    int64
	Vars []string
	Coef []int64
}

const linLimit = int64(1) << 60

// upper bounds of the integer variables (all are >= 0); used to recompute tight bounds after cancellation
var linVarHi sync.Map

func (l *LinExpr) bounds() (lo, hi int64) {
	lo, hi = l.K, l.K
	for i, v := range l.Vars {
		h := int64(1) << 40
		if x, ok := linVarHi.Load(v); ok {
			h = x.(int64)
		}
		if l.Coef[i] > 0 {
			hi += l.Coef[i] * h
		} else {
			lo += l.Coef[i] * h
		}
	}
	return
}

// isLinTree: a lin value, a small 64-bit constant, or an if-then-else tree of those.
func isLinTree(t *Term) bool {
	if t.Op == "lin" {
		return true
	}
	if t.Op == "ite" && t.S.K == SBV && t.S.W == 64 {
		return isLinTree(t.Args[1]) && isLinTree(t.Args[2])
	}
	if _, _, _, ok := linOf(t); ok {
		return true
	}
	return false
}

func hasLin(t *Term) bool {
	if t.Op == "lin" {
		return true
	}
	if t.Op == "ite" && t.S.K == SBV && t.S.W == 64 {
		return hasLin(t.Args[1]) || hasLin(t.Args[2])
	}
	return false
}

func (l *LinExpr) isConst() bool { return len(l.Vars) == 0 }

func linAdd(a, b *LinExpr, sb int64) *LinExpr {
	r := &LinExpr{K: a.K + sb*b.K}
	i, j := 0, 0
	for i < len(a.Vars) || j < len(b.Vars) {
		switch {
		case j >= len(b.Vars) || (i < len(a.Vars) && a.Vars[i] < b.Vars[j]):
			r.Vars, r.Coef = append(r.Vars, a.Vars[i]), append(r.Coef, a.Coef[i])
			i++
		case i >= len(a.Vars) || b.Vars[j] < a.Vars[i]:
			r.Vars, r.Coef = append(r.Vars, b.Vars[j]), append(r.Coef, sb*b.Coef[j])
			j++
		default:
			c := a.Coef[i] + sb*b.Coef[j]
			if c != 0 {
				r.Vars, r.Coef = append(r.Vars, a.Vars[i]), append(r.Coef, c)
			}
			i++
			j++
		}
	}
	return r
}

func (l *LinExpr) smt() string {
	if len(l.Vars) == 0 {
		return intLit(l.K)
	}
	parts := []string{}
	if l.K != 0 {
		parts = append(parts, intLit(l.K))
	}
	for i, v := range l.Vars {
		if l.Coef[i] == 1 {
			parts = append(parts, v)
		} else {
			parts = append(parts, "(* "+intLit(l.Coef[i])+" "+v+")")
		}
	}
	if len(parts) == 1 {
		return parts[0]
	}
	return "(+ " + strings.Join(parts, " ") + ")"
}

func intLit(k int64) string {
	if k < 0 {
		return fmt.Sprintf("(- %d)", -k)
	}
	return fmt.Sprintf("%d", k)
}

// MkLinVar: a BV64 value that is the integer variable name with 0 <= name < 2^bits.
func MkLinVar(name string, bits int) *Term {
	linVarHi.Store(name, int64(1)<<uint(bits)-1)
	return &Term{Op: "lin", S: BV(64), Lin: &LinExpr{Vars: []string{name}, Coef: []int64{1}}, Lo: 0, Hi: int64(1)<<uint(bits) - 1, size: 1}
}

func mkLin(l *LinExpr, lo, hi int64) *Term {
	if l.isConst() {
		return MkBV(64, uint64(l.K))
	}
	if tlo, thi := l.bounds(); tlo > lo || thi < hi {
		if tlo > lo {
			lo = tlo
		}
		if thi < hi {
			hi = thi
		}
	}
	return &Term{Op: "lin", S: BV(64), Lin: l, Lo: lo, Hi: hi, size: 1 + len(l.Vars)}
}

// linOf views a BV64 term as a linear integer expression with bounds, if it is one.
func linOf(t *Term) (*LinExpr, int64, int64, bool) {
	if t.Op == "lin" {
		return t.Lin, t.Lo, t.Hi, true
	}
	if t.Op == "const" && t.S.K == SBV && t.S.W == 64 {
		v := int64(t.C)
		if v > -linLimit && v < linLimit {
			return &LinExpr{K: v}, v, v, true
		}
	}
	return nil, 0, 0, false
}

func linPair(a, b *Term) (la, lb *LinExpr, alo, ahi, blo, bhi int64, ok bool) {
	if a.Op != "lin" && b.Op != "lin" {
		return
	}
	la, alo, ahi, ok = linOf(a)
	if !ok {
		return
	}
	lb, blo, bhi, ok = linOf(b)
	return
}

// mkLinCmp builds (l rel 0) with rel: 0 "<=", 1 "<", 2 "="
func mkLinCmp(l *LinExpr, rel int) *Term {
	if l.isConst() {
		switch rel {
		case 0:
			return MkBool(l.K <= 0)
		case 1:
			return MkBool(l.K < 0)
		default:
			return MkBool(l.K == 0)
		}
	}
	return &Term{Op: "lincmp", S: BoolSort, Lin: l, P1: rel, size: 1 + len(l.Vars)}
}

func hashStr(s string) uint64 {
	h := uint64(1469598103934665603)
	for i := 0; i < len(s); i++ {
		h ^= uint64(s[i])
		h *= 1099511628211
	}
	return h
}

func (t *Term) Hash() uint64 {
	if t.h != 0 {
		return t.h
	}
	h := hashStr(t.Op)*31 + uint64(t.S.K)*7 + uint64(t.S.W)*13 + t.C*1000003 + uint64(t.P1)*17 + uint64(t.P2)*19
	if t.Name != "" {
		h ^= hashStr(t.Name)
	}
	for _, a := range t.Args {
		h = h*1099511628211 + a.Hash()
	}
	if t.Lin != nil {
		h = h*31 + uint64(t.Lin.K)
		for i, v := range t.Lin.Vars {
			h = h*1099511628211 + hashStr(v) + uint64(t.Lin.Coef[i])*7919
		}
	}
	if h == 0 {
		h = 1
	}
	t.h = h
	return h
}

// structEq: structural equality (hash-guided).
func structEq(a, b *Term) bool {
	if a == b {
		return true
	}
	if a.Hash() != b.Hash() || a.Op != b.Op || a.S != b.S || a.C != b.C || a.Name != b.Name || a.P1 != b.P1 || a.P2 != b.P2 || len(a.Args) != len(b.Args) {
		return false
	}
	for i := range a.Args {
		if !structEq(a.Args[i], b.Args[i]) {
			return false
		}
	}
	if (a.Lin == nil) != (b.Lin == nil) {
		return false
	}
	if a.Lin != nil {
		if a.Lin.K != b.Lin.K || len(a.Lin.Vars) != len(b.Lin.Vars) {
			return false
		}
		for i := range a.Lin.Vars {
			if a.Lin.Vars[i] != b.Lin.Vars[i] || a.Lin.Coef[i] != b.Lin.Coef[i] {
				return false
			}
		}
	}
	return true
}

func (t *Term) IsConst() bool { return t.Op == "const" }

func mask(w int) uint64 {
	if w >= 64 {
		return ^uint64(0)
	}
	return (uint64(1) << uint(w)) - 1
}

var tTrue = &Term{Op: "const", S: BoolSort, C: 1, size: 1}
var tFalse = &Term{Op: "const", S: BoolSort, C: 0, size: 1}

func MkBool(b bool) *Term {
	if b {
		return tTrue
	}
	return tFalse
}

func MkBV(w int, v uint64) *Term {
	return &Term{Op: "const", S: BV(w), C: v & mask(w), size: 1}
}

func MkFP(f float64) *Term {
	return &Term{Op: "const", S: FPSort, C: math.Float64bits(f), size: 1}
}

func MkVar(name string, s Sort) *Term {
	return &Term{Op: "var", Name: name, S: s, size: 1}
}

func (t *Term) IsTrue() bool  { return t.Op == "const" && t.S.K == SBool && t.C == 1 }
func (t *Term) IsFalse() bool { return t.Op == "const" && t.S.K == SBool && t.C == 0 }

// signed value of a BV constant
func (t *Term) SVal() int64 {
	w := t.S.W
	v := t.C
	if w < 64 && v&(1<<uint(w-1)) != 0 {
		v |= ^mask(w)
	}
	return int64(v)
}

func (t *Term) FVal() float64 { return math.Float64frombits(t.C) }

func mk(op string, s Sort, args ...*Term) *Term {
	sz := 1
	for _, a := range args {
		sz += a.size
		if sz > 1<<20 {
			sz = 1 << 20
		}
	}
	return &Term{Op: op, S: s, Args: args, size: sz}
}

func sameTerm(a, b *Term) bool {
	if a == b {
		return true
	}
	if a.Op == "const" && b.Op == "const" && a.S == b.S && a.C == b.C {
		return true
	}
	if a.Op == "var" && b.Op == "var" && a.Name == b.Name {
		return true
	}
	return false
}

func Not(a *Term) *Term {
	if a.IsConst() {
		return MkBool(a.C == 0)
	}
	if a.Op == "not" {
		return a.Args[0]
	}
	return mk("not", BoolSort, a)
}

func And(as ...*Term) *Term {
	var out []*Term
	for _, a := range as {
		if a.IsFalse() {
			return tFalse
		}
		if a.IsTrue() {
			continue
		}
		dup := false
		for _, o := range out {
			if o == a {
				dup = true
			}
		}
		if !dup {
			out = append(out, a)
		}
	}
	switch len(out) {
	case 0:
		return tTrue
	case 1:
		return out[0]
	}
	return mk("and", BoolSort, out...)
}

func Or(as ...*Term) *Term {
	var out []*Term
	for _, a := range as {
		if a.IsTrue() {
			return tTrue
		}
		if a.IsFalse() {
			continue
		}
		dup := false
		for _, o := range out {
			if o == a {
				dup = true
			}
		}
		if !dup {
			out = append(out, a)
		}
	}
	switch len(out) {
	case 0:
		return tFalse
	case 1:
		return out[0]
	}
	return mk("or", BoolSort, out...)
}

func Implies(a, b *Term) *Term { return Or(Not(a), b) }

func Ite(c, a, b *Term) *Term {
	if c.IsTrue() {
		return a
	}
	if c.IsFalse() {
		return b
	}
	if sameTerm(a, b) {
		return a
	}
	if a.S != b.S {
		panic(fmt.Sprintf("ite sort mismatch %v %v", a.S, b.S))
	}
	if a.S.K == SBool {
		if a.IsTrue() && b.IsFalse() {
			return c
		}
		if a.IsFalse() && b.IsTrue() {
			return Not(c)
		}
		if a.IsTrue() {
			return Or(c, b)
		}
		if a.IsFalse() {
			return And(Not(c), b)
		}
		if b.IsTrue() {
			return Or(Not(c), a)
		}
		if b.IsFalse() {
			return And(c, a)
		}
	}
	return mk("ite", a.S, c, a, b)
}

func Eq(a, b *Term) *Term {
	if a.S != b.S {
		panic(fmt.Sprintf("eq sort mismatch %v %v (%s / %s)", a.S, b.S, a.Op, b.Op))
	}
	if sameTerm(a, b) {
		if a.S.K == SFP {
			if a.IsConst() {
				return MkBool(a.FVal() == b.FVal())
			}
		} else {
			return tTrue
		}
	}
	if a.IsConst() && b.IsConst() {
		if a.S.K == SFP {
			return MkBool(a.FVal() == b.FVal())
		}
		return MkBool(a.C == b.C)
	}
	if a.S.K == SFP {
		return mk("fp.eq", BoolSort, a, b)
	}
	if a.S.K == SBV && a.S.W == 64 && (hasLin(a) || hasLin(b)) && isLinTree(a) && isLinTree(b) {
		if a.Op == "ite" {
			return Ite(a.Args[0], Eq(a.Args[1], b), Eq(a.Args[2], b))
		}
		if b.Op == "ite" {
			return Ite(b.Args[0], Eq(a, b.Args[1]), Eq(a, b.Args[2]))
		}
	}
	if la, lb, alo, ahi, blo, bhi, ok := linPair(a, b); ok {
		if ahi < blo || bhi < alo {
			return tFalse
		}
		return mkLinCmp(linAdd(la, lb, -1), 2)
	}
	if a.S.K == SBool {
		if a.IsConst() {
			if a.C == 1 {
				return b
			}
			return Not(b)
		}
		if b.IsConst() {
			if b.C == 1 {
				return a
			}
			return Not(a)
		}
	}
	// eq(ite(c,k1,k2), k) with constants: simplify
	if b.IsConst() && a.Op == "ite" && a.Args[1].IsConst() && a.Args[2].IsConst() {
		return Ite(a.Args[0], Eq(a.Args[1], b), Eq(a.Args[2], b))
	}
	if a.IsConst() && b.Op == "ite" && b.Args[1].IsConst() && b.Args[2].IsConst() {
		return Ite(b.Args[0], Eq(b.Args[1], a), Eq(b.Args[2], a))
	}
	return mk("=", BoolSort, a, b)
}

func sext(v uint64, w int) int64 {
	if w < 64 && v&(1<<uint(w-1)) != 0 {
		v |= ^mask(w)
	}
	return int64(v)
}

// BvBin builds a binary bit-vector operation.
func BvBin(op string, a, b *Term) *Term {
	if a.S != b.S || a.S.K != SBV {
		panic(fmt.Sprintf("bv %s sort mismatch %v %v", op, a.S, b.S))
	}
	w := a.S.W
	if (op == "bvadd" || op == "bvsub") && w == 64 && (hasLin(a) || hasLin(b)) && isLinTree(a) && isLinTree(b) {
		if a.Op == "ite" {
			return Ite(a.Args[0], BvBin(op, a.Args[1], b), BvBin(op, a.Args[2], b))
		}
		if b.Op == "ite" {
			return Ite(b.Args[0], BvBin(op, a, b.Args[1]), BvBin(op, a, b.Args[2]))
		}
	}
	if la, lb, alo, ahi, blo, bhi, ok := linPair(a, b); ok {
		switch op {
		case "bvadd":
			if lo, hi := alo+blo, ahi+bhi; lo > -linLimit && hi < linLimit {
				return mkLin(linAdd(la, lb, 1), lo, hi)
			}
		case "bvsub":
			if lo, hi := alo-bhi, ahi-blo; lo > -linLimit && hi < linLimit {
				return mkLin(linAdd(la, lb, -1), lo, hi)
			}
		case "bvmul":
			var k int64
			var l *LinExpr
			var lo, hi int64
			if la.isConst() {
				k, l, lo, hi = la.K, lb, blo, bhi
			} else if lb.isConst() {
				k, l, lo, hi = lb.K, la, alo, ahi
			}
			if l != nil && k > -(1<<20) && k < 1<<20 && lo > -(1<<40) && hi < 1<<40 {
				r := &LinExpr{K: l.K * k}
				if k != 0 {
					for i, v := range l.Vars {
						r.Vars, r.Coef = append(r.Vars, v), append(r.Coef, l.Coef[i]*k)
					}
				}
				nlo, nhi := lo*k, hi*k
				if k < 0 {
					nlo, nhi = nhi, nlo
				}
				return mkLin(r, nlo, nhi)
			}
		}
	}
	if a.IsConst() && b.IsConst() {
		x, y := a.C, b.C
		var r uint64
		switch op {
		case "bvadd":
			r = x + y
		case "bvsub":
			r = x - y
		case "bvmul":
			r = x * y
		case "bvand":
			r = x & y
		case "bvor":
			r = x | y
		case "bvxor":
			r = x ^ y
		case "bvudiv":
			if y == 0 {
				r = mask(w)
			} else {
				r = x / y
			}
		case "bvurem":
			if y == 0 {
				r = x
			} else {
				r = x % y
			}
		case "bvsdiv":
			sx, sy := sext(x, w), sext(y, w)
			if sy == 0 {
				if sx < 0 {
					r = 1
				} else {
					r = mask(w)
				}
			} else if sy == -1 {
				r = uint64(-sx)
			} else {
				r = uint64(sx / sy)
			}
		case "bvsrem":
			sx, sy := sext(x, w), sext(y, w)
			if sy == 0 {
				r = x
			} else if sy == -1 {
				r = 0
			} else {
				r = uint64(sx % sy)
			}
		case "bvshl":
			if y >= uint64(w) {
				r = 0
			} else {
				r = x << y
			}
		case "bvlshr":
			if y >= uint64(w) {
				r = 0
			} else {
				r = x >> y
			}
		case "bvashr":
			sx := sext(x, w)
			if y >= uint64(w) {
				if sx < 0 {
					r = mask(w)
				} else {
					r = 0
				}
			} else {
				r = uint64(sx >> y)
			}
		default:
			panic("unknown bv op " + op)
		}
		return MkBV(w, r)
	}
	// identities
	switch op {
	case "bvadd":
		if a.IsConst() && a.C == 0 {
			return b
		}
		if b.IsConst() && b.C == 0 {
			return a
		}
		// (x + c1) + c2
		if b.IsConst() && a.Op == "bvadd" && a.Args[1].IsConst() {
			return BvBin("bvadd", a.Args[0], MkBV(w, a.Args[1].C+b.C))
		}
	case "bvsub":
		if b.IsConst() && b.C == 0 {
			return a
		}
		if a == b {
			return MkBV(w, 0)
		}
		if b.IsConst() {
			return BvBin("bvadd", a, MkBV(w, -b.C))
		}
	case "bvmul":
		if a.IsConst() && a.C == 1 {
			return b
		}
		if b.IsConst() && b.C == 1 {
			return a
		}
		if (a.IsConst() && a.C == 0) || (b.IsConst() && b.C == 0) {
			return MkBV(w, 0)
		}
	case "bvand":
		if (a.IsConst() && a.C == 0) || (b.IsConst() && b.C == 0) {
			return MkBV(w, 0)
		}
		if a.IsConst() && a.C == mask(w) {
			return b
		}
		if b.IsConst() && b.C == mask(w) {
			return a
		}
	case "bvor", "bvxor":
		if a.IsConst() && a.C == 0 {
			return b
		}
		if b.IsConst() && b.C == 0 {
			return a
		}
	case "bvshl", "bvlshr", "bvashr":
		if b.IsConst() && b.C == 0 {
			return a
		}
	}
	return mk(op, a.S, a, b)
}

func BvNot(a *Term) *Term {
	if a.IsConst() {
		return MkBV(a.S.W, ^a.C)
	}
	return mk("bvnot", a.S, a)
}

func BvNeg(a *Term) *Term {
	if a.IsConst() {
		return MkBV(a.S.W, -a.C)
	}
	return mk("bvneg", a.S, a)
}

// BvCmp: op in bvult bvule bvugt bvuge bvslt bvsle bvsgt bvsge
func BvCmp(op string, a, b *Term) *Term {
	if a.S != b.S || a.S.K != SBV {
		panic(fmt.Sprintf("bvcmp %s sort mismatch %v %v", op, a.S, b.S))
	}
	w := a.S.W
	if w == 64 && (hasLin(a) || hasLin(b)) && isLinTree(a) && isLinTree(b) {
		if a.Op == "ite" {
			return Ite(a.Args[0], BvCmp(op, a.Args[1], b), BvCmp(op, a.Args[2], b))
		}
		if b.Op == "ite" {
			return Ite(b.Args[0], BvCmp(op, a, b.Args[1]), BvCmp(op, a, b.Args[2]))
		}
	}
	if la, lb, alo, ahi, blo, bhi, ok := linPair(a, b); ok {
		signed := op[2] == 's'
		if signed || (alo >= 0 && blo >= 0) {
			switch op[3:] {
			case "lt": // a < b
				if ahi < blo {
					return tTrue
				}
				if alo >= bhi {
					return tFalse
				}
				return mkLinCmp(linAdd(la, lb, -1), 1)
			case "le":
				if ahi <= blo {
					return tTrue
				}
				if alo > bhi {
					return tFalse
				}
				return mkLinCmp(linAdd(la, lb, -1), 0)
			case "gt": // b < a
				if bhi < alo {
					return tTrue
				}
				if blo >= ahi {
					return tFalse
				}
				return mkLinCmp(linAdd(lb, la, -1), 1)
			case "ge": // b <= a
				if bhi <= alo {
					return tTrue
				}
				if blo > ahi {
					return tFalse
				}
				return mkLinCmp(linAdd(lb, la, -1), 0)
			}
		}
	}
	if a.IsConst() && b.IsConst() {
		x, y := a.C, b.C
		sx, sy := sext(x, w), sext(y, w)
		var r bool
		switch op {
		case "bvult":
			r = x < y
		case "bvule":
			r = x <= y
		case "bvugt":
			r = x > y
		case "bvuge":
			r = x >= y
		case "bvslt":
			r = sx < sy
		case "bvsle":
			r = sx <= sy
		case "bvsgt":
			r = sx > sy
		case "bvsge":
			r = sx >= sy
		}
		return MkBool(r)
	}
	if a == b {
		switch op {
		case "bvule", "bvuge", "bvsle", "bvsge":
			return tTrue
		default:
			return tFalse
		}
	}
	// push comparisons through ite-of-constants (common for Index results)
	if b.Op == "lin" && a.Op == "ite" && a.size < 200 {
		return Ite(a.Args[0], BvCmp(op, a.Args[1], b), BvCmp(op, a.Args[2], b))
	}
	if a.Op == "lin" && b.Op == "ite" && b.size < 200 {
		return Ite(b.Args[0], BvCmp(op, a, b.Args[1]), BvCmp(op, a, b.Args[2]))
	}
	if b.IsConst() && a.Op == "ite" && a.Args[1].IsConst() && a.size < 200 {
		return Ite(a.Args[0], BvCmp(op, a.Args[1], b), BvCmp(op, a.Args[2], b))
	}
	if a.IsConst() && b.Op == "ite" && b.Args[1].IsConst() && b.size < 200 {
		return Ite(b.Args[0], BvCmp(op, a, b.Args[1]), BvCmp(op, a, b.Args[2]))
	}
	return mk(op, BoolSort, a, b)
}

func Extract(hi, lo int, a *Term) *Term {
	if lo == 0 && hi == a.S.W-1 {
		return a
	}
	if a.IsConst() {
		return MkBV(hi-lo+1, a.C>>uint(lo))
	}
	if a.Op == "zext" || a.Op == "sext" {
		inner := a.Args[0]
		if hi < inner.S.W {
			return Extract(hi, lo, inner)
		}
	}
	t := mk("extract", BV(hi-lo+1), a)
	t.P1, t.P2 = hi, lo
	return t
}

func ZExt(a *Term, w int) *Term {
	if a.S.W == w {
		return a
	}
	if a.S.W > w {
		return Extract(w-1, 0, a)
	}
	if a.IsConst() {
		return MkBV(w, a.C)
	}
	t := mk("zext", BV(w), a)
	t.P1 = w - a.S.W
	return t
}

func SExt(a *Term, w int) *Term {
	if a.S.W == w {
		return a
	}
	if a.S.W > w {
		return Extract(w-1, 0, a)
	}
	if a.IsConst() {
		return MkBV(w, uint64(sext(a.C, a.S.W)))
	}
	t := mk("sext", BV(w), a)
	t.P1 = w - a.S.W
	return t
}

// Floating point (float64 only).
func FpBin(op string, a, b *Term) *Term {
	if a.IsConst() && b.IsConst() {
		x, y := a.FVal(), b.FVal()
		switch op {
		case "fp.add":
			return MkFP(x + y)
		case "fp.sub":
			return MkFP(x - y)
		case "fp.mul":
			return MkFP(x * y)
		case "fp.div":
			return MkFP(x / y)
		}
	}
	return mk(op, FPSort, a, b)
}

func FpCmp(op string, a, b *Term) *Term {
	// exact rewriting: an unsigned integer of <= 52 bits converts to float64 without rounding, so comparing it
	// with a constant is an integer comparison.
	if a.Op == "fp.from_ubv" && a.Args[0].S.W <= 52 && b.IsConst() && op != "fp.eq" {
		h := a.Args[0]
		w := h.S.W
		c := b.FVal()
		if c != c { // NaN
			return tFalse
		}
		lim := float64(uint64(1) << uint(w))
		fl := math.Floor(c)
		switch op {
		case "fp.leq": // h <= c  <=>  h <= floor(c)
			if c < 0 {
				return tFalse
			}
			if fl >= lim-1 {
				return tTrue
			}
			return BvCmp("bvule", h, MkBV(w, uint64(fl)))
		case "fp.lt": // h < c <=> h <= ceil(c)-1
			if c <= 0 {
				return tFalse
			}
			ce := math.Ceil(c)
			if ce-1 >= lim-1 {
				return tTrue
			}
			return BvCmp("bvule", h, MkBV(w, uint64(ce-1)))
		case "fp.geq":
			return Not(FpCmp("fp.lt", a, b))
		case "fp.gt":
			return Not(FpCmp("fp.leq", a, b))
		}
	}
	if a.IsConst() && b.IsConst() {
		x, y := a.FVal(), b.FVal()
		switch op {
		case "fp.lt":
			return MkBool(x < y)
		case "fp.leq":
			return MkBool(x <= y)
		case "fp.gt":
			return MkBool(x > y)
		case "fp.geq":
			return MkBool(x >= y)
		case "fp.eq":
			return MkBool(x == y)
		}
	}
	return mk(op, BoolSort, a, b)
}

func FpFromBV(a *Term, signed bool) *Term {
	if a.IsConst() {
		if signed {
			return MkFP(float64(a.SVal()))
		}
		return MkFP(float64(a.C))
	}
	if signed {
		return mk("fp.from_sbv", FPSort, a)
	}
	return mk("fp.from_ubv", FPSort, a)
}

func FpToBV(a *Term, w int, signed bool) *Term {
	if a.IsConst() {
		if signed {
			return MkBV(w, uint64(int64(a.FVal())))
		}
		return MkBV(w, uint64(a.FVal()))
	}
	t := mk("fp.to_bv", BV(w), a)
	if signed {
		t.P1 = 1
	}
	return t
}

// ---- printing ----

type printer struct {
	newDecls []string
	known    map[string]int
	memo     map[*Term]string
	decls    map[string]Sort
	out      *strings.Builder // definitions / declarations to send before use
	n        int
}

func newPrinter() *printer {
	return &printer{memo: map[*Term]string{}, decls: map[string]Sort{}, out: &strings.Builder{}}
}

func bvLit(w int, v uint64) string {
	if w%4 == 0 {
		return fmt.Sprintf("#x%0*x", w/4, v)
	}
	return fmt.Sprintf("#b%0*b", w, v)
}

func fpLit(bitsv uint64) string {
	sign := bitsv >> 63
	exp := (bitsv >> 52) & 0x7ff
	man := bitsv & ((1 << 52) - 1)
	return fmt.Sprintf("(fp #b%b #b%011b #x%013x)", sign, exp, man)
}

func (p *printer) str(t *Term) string {
	if s, ok := p.memo[t]; ok {
		return s
	}
	var s string
	switch t.Op {
	case "const":
		switch t.S.K {
		case SBool:
			if t.C == 1 {
				s = "true"
			} else {
				s = "false"
			}
		case SBV:
			s = bvLit(t.S.W, t.C)
		case SFP:
			s = fpLit(t.C)
		}
		return s
	case "lin", "lincmp":
		for _, v := range t.Lin.Vars {
			if _, ok := p.decls[v]; !ok {
				p.decls[v] = Sort{K: SInt}
				p.newDecls = append(p.newDecls, v)
				fmt.Fprintf(p.out, "(declare-const %s Int)\n", v)
			}
		}
		if t.Op == "lin" {
			return "((_ int2bv 64) " + t.Lin.smt() + ")"
		}
		rel := [...]string{"<=", "<", "="}[t.P1]
		// move negative-coefficient terms to the right-hand side is unnecessary: print (rel expr 0)
		return "(" + rel + " " + t.Lin.smt() + " 0)"
	case "var":
		if _, ok := p.decls[t.Name]; !ok {
			p.decls[t.Name] = t.S
			p.newDecls = append(p.newDecls, t.Name)
			fmt.Fprintf(p.out, "(declare-const %s %s)\n", t.Name, t.S)
		}
		return t.Name
	}
	args := make([]string, len(t.Args))
	for i, a := range t.Args {
		args[i] = p.str(a)
	}
	switch t.Op {
	case "extract":
		s = fmt.Sprintf("((_ extract %d %d) %s)", t.P1, t.P2, args[0])
	case "zext":
		s = fmt.Sprintf("((_ zero_extend %d) %s)", t.P1, args[0])
	case "sext":
		s = fmt.Sprintf("((_ sign_extend %d) %s)", t.P1, args[0])
	case "fp.from_sbv":
		s = fmt.Sprintf("((_ to_fp 11 53) RNE %s)", args[0])
	case "fp.from_ubv":
		s = fmt.Sprintf("((_ to_fp_unsigned 11 53) RNE %s)", args[0])
	case "fp.to_bv":
		if t.P1 == 1 {
			s = fmt.Sprintf("((_ fp.to_sbv %d) RTZ %s)", t.S.W, args[0])
		} else {
			s = fmt.Sprintf("((_ fp.to_ubv %d) RTZ %s)", t.S.W, args[0])
		}
	case "fp.add", "fp.sub", "fp.mul", "fp.div":
		s = fmt.Sprintf("(%s RNE %s)", t.Op, strings.Join(args, " "))
	default:
		s = "(" + t.Op + " " + strings.Join(args, " ") + ")"
	}
	if t.size > 6 {
		p.n++
		name := fmt.Sprintf("t!%d", p.n)
		fmt.Fprintf(p.out, "(define-fun %s () %s %s)\n", name, t.S, s)
		s = name
	}
	p.memo[t] = s
	return s
}

// evaluate a term under a model (var name -> value). Used for concrete re-checks.
func evalTerm(t *Term, model map[string]uint64, memo map[*Term]uint64) uint64 {
	if t.Op == "const" {
		return t.C
	}
	if v, ok := memo[t]; ok {
		return v
	}
	var r uint64
	b2u := func(b bool) uint64 {
		if b {
			return 1
		}
		return 0
	}
	arg := func(i int) uint64 { return evalTerm(t.Args[i], model, memo) }
	switch t.Op {
	case "lin", "lincmp":
		v := t.Lin.K
		for i, name := range t.Lin.Vars {
			v += t.Lin.Coef[i] * int64(model[name])
		}
		if t.Op == "lin" {
			r = uint64(v)
		} else {
			switch t.P1 {
			case 0:
				r = b2u(v <= 0)
			case 1:
				r = b2u(v < 0)
			default:
				r = b2u(v == 0)
			}
		}
	case "var":
		r = model[t.Name] & func() uint64 {
			if t.S.K == SBV {
				return mask(t.S.W)
			}
			return ^uint64(0)
		}()
	case "not":
		r = 1 - arg(0)
	case "and":
		r = 1
		for i := range t.Args {
			if arg(i) == 0 {
				r = 0
				break
			}
		}
	case "or":
		r = 0
		for i := range t.Args {
			if arg(i) == 1 {
				r = 1
				break
			}
		}
	case "ite":
		if arg(0) == 1 {
			r = arg(1)
		} else {
			r = arg(2)
		}
	case "=":
		r = b2u(arg(0) == arg(1))
	case "fp.eq":
		r = b2u(math.Float64frombits(arg(0)) == math.Float64frombits(arg(1)))
	case "extract":
		r = (arg(0) >> uint(t.P2)) & mask(t.P1-t.P2+1)
	case "zext":
		r = arg(0)
	case "sext":
		r = uint64(sext(arg(0), t.Args[0].S.W)) & mask(t.S.W)
	case "bvnot":
		r = ^arg(0) & mask(t.S.W)
	case "bvneg":
		r = -arg(0) & mask(t.S.W)
	case "fp.from_sbv":
		r = math.Float64bits(float64(sext(arg(0), t.Args[0].S.W)))
	case "fp.from_ubv":
		r = math.Float64bits(float64(arg(0)))
	case "fp.to_bv":
		f := math.Float64frombits(arg(0))
		if t.P1 == 1 {
			r = uint64(int64(f)) & mask(t.S.W)
		} else {
			r = uint64(f) & mask(t.S.W)
		}
	case "fp.add", "fp.sub", "fp.mul", "fp.div":
		x := FpBin(t.Op, MkFP(math.Float64frombits(arg(0))), MkFP(math.Float64frombits(arg(1))))
		r = x.C
	case "fp.lt", "fp.leq", "fp.gt", "fp.geq":
		x := FpCmp(t.Op, MkFP(math.Float64frombits(arg(0))), MkFP(math.Float64frombits(arg(1))))
		r = x.C
	default:
		if strings.HasPrefix(t.Op, "bv") {
			a, b := MkBV(t.Args[0].S.W, arg(0)), MkBV(t.Args[1].S.W, arg(1))
			switch t.Op {
			case "bvult", "bvule", "bvugt", "bvuge", "bvslt", "bvsle", "bvsgt", "bvsge":
				r = BvCmp(t.Op, a, b).C
			default:
				r = BvBin(t.Op, a, b).C
			}
		} else {
			panic("evalTerm: unknown op " + t.Op)
		}
	}
	memo[t] = r
	return r
}

var _ = bits.Len
