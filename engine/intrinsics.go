package main

import (
	"fmt"
	"go/types"
	"net/http"
	"strconv"
	"strings"

	"golang.org/x/tools/go/ssa"
)

type intrinsicFn func(m *Machine, fr *frame, args []Value) Value

var intrinsics = map[string]intrinsicFn{}

func genericIntrinsic(fn *ssa.Function) intrinsicFn {
	if o := fn.Origin(); o != nil && o != fn {
		return genericIntrinsics[o.String()]
	}
	return nil
}

var genericIntrinsics = map[string]intrinsicFn{}

const repoPkg = "github.com/basecamp/kamal-proxy/internal/"

func regHarness(name string, f intrinsicFn) {
	intrinsics[repoPkg+"server."+name] = f
	intrinsics[repoPkg+"cmd."+name] = f
}

func b2t(b bool) *Term { return MkBool(b) }

func (m *Machine) argStr(v Value, why string) string {
	return m.concStr(v.(*Str), why)
}

func (m *Machine) violation(kind, label, detail string, model map[string]uint64) *Violation {
	if m.note != "" {
		detail += " | " + m.note
	}
	v := &Violation{Kind: kind, Label: label, Detail: detail, Choices: append([]int{}, m.forced[:m.pos]...)}
	if model != nil {
		v.Model = m.decodeInputs(model)
	}
	m.violations = append(m.violations, v)
	return v
}

func (m *Machine) decodeInputs(model map[string]uint64) map[string]any {
	out := map[string]any{}
	for _, in := range m.inputs {
		switch in.Kind {
		case "bool":
			out[in.Name] = model[in.Term.Name] == 1
		case "int":
			nm := in.Term.Name
			if in.Term.Op == "lin" {
				nm = in.Term.Lin.Vars[0]
			}
			v := model[nm]
			if in.Unsigned {
				out[in.Name] = int64(v)
			} else {
				out[in.Name] = sext(v, in.W)
			}
		case "choose":
			out[in.Name] = in.W
		case "string":
			n := int(model[in.Str.n.Name])
			if n > len(in.Str.b) {
				n = len(in.Str.b)
			}
			bs := make([]byte, n)
			for i := 0; i < n; i++ {
				bs[i] = byte(model[in.Str.b[i].Name])
			}
			// JSON-safe: list of byte values
			ints := make([]int, n)
			for i, b := range bs {
				ints[i] = int(b)
			}
			out[in.Name] = map[string]any{"bytes": ints, "text": fmt.Sprintf("%q", string(bs))}
		}
	}
	return out
}

func init() {
	// ---------- harness intrinsics ----------
	regHarness("vBool", func(m *Machine, fr *frame, a []Value) Value {
		return m.symBool(m.argStr(a[0], "vBool name"))
	})
	regHarness("vInt", func(m *Machine, fr *frame, a []Value) Value {
		return m.symBV(m.argStr(a[0], "vInt name"), 64)
	})
	regHarness("vInt64", func(m *Machine, fr *frame, a []Value) Value {
		return m.symBV(m.argStr(a[0], "vInt64 name"), 64)
	})
	regHarness("vDuration", func(m *Machine, fr *frame, a []Value) Value {
		return m.symBV(m.argStr(a[0], "vDuration name"), 64)
	})
	regHarness("vDurationN", func(m *Machine, fr *frame, a []Value) Value {
		// a non-negative duration of at most `bits` bits: a narrow variable zero-extended to 64 bits keeps the
		// bit-blasted time arithmetic small
		bits := int(m.concInt(a[1].(*Term), "vDurationN bits"))
		return m.symLin(m.argStr(a[0], "vDurationN name"), bits)
	})
	regHarness("vUint32", func(m *Machine, fr *frame, a []Value) Value {
		return m.symBV(m.argStr(a[0], "vUint32 name"), 32)
	})
	regHarness("vByte", func(m *Machine, fr *frame, a []Value) Value {
		return m.symBV(m.argStr(a[0], "vByte name"), 8)
	})
	regHarness("vIntRange", func(m *Machine, fr *frame, a []Value) Value {
		t := m.symBV(m.argStr(a[0], "vIntRange name"), 64)
		m.assumeChecked(And(BvCmp("bvsle", a[1].(*Term), t), BvCmp("bvsle", t, a[2].(*Term))))
		return t
	})
	regHarness("vString", func(m *Machine, fr *frame, a []Value) Value {
		return m.symStr(m.argStr(a[0], "vString name"), int(m.concInt(a[1].(*Term), "vString cap")))
	})
	regHarness("vBytes", func(m *Machine, fr *frame, a []Value) Value {
		name := m.argStr(a[0], "vBytes name")
		n := int(m.concInt(a[1].(*Term), "vBytes n"))
		out := make([]Value, n)
		for i := range out {
			out[i] = m.symBV(fmt.Sprintf("%s[%d]", name, i), 8)
		}
		return out
	})
	regHarness("vChoose", func(m *Machine, fr *frame, a []Value) Value {
		name := m.argStr(a[0], "vChoose name")
		n := int(m.concInt(a[1].(*Term), "vChoose n"))
		opts := make([]int, n)
		for i := range opts {
			opts[i] = i
		}
		m.checkName(name)
		v := m.decideLazy("choose:"+name, func() []int { return opts })
		m.inputs = append(m.inputs, &inputRec{Name: name, Kind: "choose", W: v})
		return MkBV(64, uint64(v))
	})
	regHarness("vAssume", func(m *Machine, fr *frame, a []Value) Value {
		m.assumeChecked(a[0].(*Term))
		return nil
	})
	regHarness("vAssert", func(m *Machine, fr *frame, a []Value) Value {
		m.assertCond(a[0].(*Term), m.argStr(a[1], "vAssert label"), fr)
		return nil
	})
	regHarness("vCover", func(m *Machine, fr *frame, a []Value) Value {
		label := m.argStr(a[1], "vCover label")
		c := a[0].(*Term)
		if m.covers[label] {
			return nil
		}
		if c.IsTrue() {
			m.covers[label] = true
		} else if !c.IsFalse() {
			if r := m.solver.CheckWith(c, false); r == Sat {
				m.covers[label] = true
			}
		}
		if _, ok := m.covers[label]; !ok {
			m.covers[label] = false
		}
		return nil
	})
	regHarness("vFail", func(m *Machine, fr *frame, a []Value) Value {
		m.assertCond(tFalse, m.argStr(a[0], "vFail label"), fr)
		return nil
	})
	regHarness("vAnd", func(m *Machine, fr *frame, a []Value) Value { return And(a[0].(*Term), a[1].(*Term)) })
	regHarness("vOr", func(m *Machine, fr *frame, a []Value) Value { return Or(a[0].(*Term), a[1].(*Term)) })
	regHarness("vNot", func(m *Machine, fr *frame, a []Value) Value { return Not(a[0].(*Term)) })
	regHarness("vImplies", func(m *Machine, fr *frame, a []Value) Value { return Implies(a[0].(*Term), a[1].(*Term)) })
	regHarness("vIff", func(m *Machine, fr *frame, a []Value) Value { return Eq(a[0].(*Term), a[1].(*Term)) })
	regHarness("vIteInt", func(m *Machine, fr *frame, a []Value) Value {
		return Ite(a[0].(*Term), a[1].(*Term), a[2].(*Term))
	})
	regHarness("vIteStr", func(m *Machine, fr *frame, a []Value) Value {
		c := a[0].(*Term)
		if c.IsTrue() {
			return a[1]
		}
		if c.IsFalse() {
			return a[2]
		}
		x, y := a[1].(*Str), a[2].(*Str)
		cp := x.capacity()
		if y.capacity() > cp {
			cp = y.capacity()
		}
		bs := make([]*Term, cp)
		for i := range bs {
			bs[i] = Ite(c, x.byteAt(i), y.byteAt(i))
		}
		return &Str{n: Ite(c, x.Len(), y.Len()), b: bs}
	})
	regHarness("vLog", func(m *Machine, fr *frame, a []Value) Value {
		if m.trace || verbose {
			var parts []string
			for _, v := range a[0].([]Value) {
				parts = append(parts, describe(v.(Iface).V))
			}
			fmt.Println("vLog:", strings.Join(parts, " "))
		}
		return nil
	})
	regHarness("vMapOrderFixed", func(m *Machine, fr *frame, a []Value) Value {
		m.mapOrderFixed = a[0].(*Term).IsTrue()
		return nil
	})
	regHarness("vFixMapOrderType", func(m *Machine, fr *frame, a []Value) Value {
		m.fixedOrderTypes = append(m.fixedOrderTypes, m.argStr(a[0], "vFixMapOrderType"))
		return nil
	})
	regHarness("vNote", func(m *Machine, fr *frame, a []Value) Value {
		s := a[0].(*Str).normalize()
		if s.conc {
			m.note = s.s
		} else {
			m.note = "(symbolic note)"
		}
		return nil
	})
	regHarness("vSymbolic", func(m *Machine, fr *frame, a []Value) Value { return tTrue })
	regHarness("vIsConcrete", func(m *Machine, fr *frame, a []Value) Value {
		switch v := a[0].(Iface).V.(type) {
		case *Term:
			return MkBool(v.IsConst())
		case *Str:
			return MkBool(v.normalize().conc)
		}
		return tTrue
	})
	regHarness("vConcretizeInt", func(m *Machine, fr *frame, a []Value) Value {
		lo, hi := m.concInt(a[1].(*Term), "lo"), m.concInt(a[2].(*Term), "hi")
		return MkBV(64, uint64(m.concretize(a[0].(*Term), lo, hi, "vConcretizeInt")))
	})
	// T2
	regHarness("vNow", func(m *Machine, fr *frame, a []Value) Value { return m.now })
	regHarness("vSleep", func(m *Machine, fr *frame, a []Value) Value {
		fired := false
		m.addTimer(a[0].(*Term), "vSleep", func() { fired = true })
		m.blockUntil("vSleep", func() bool { return fired })
		return nil
	})
	regHarness("vYield", func(m *Machine, fr *frame, a []Value) Value {
		m.schedPoint("yield")
		return nil
	})
	regHarness("vDaemon", func(m *Machine, fr *frame, a []Value) Value {
		m.cur.daemon = true
		return nil
	})
	regHarness("vGoName", func(m *Machine, fr *frame, a []Value) Value {
		m.cur.name = m.argStr(a[0], "vGoName")
		return nil
	})
	regHarness("vGid", func(m *Machine, fr *frame, a []Value) Value { return MkBV(64, uint64(m.cur.id)) })
	regHarness("vAtomicBegin", func(m *Machine, fr *frame, a []Value) Value {
		m.cur.atomicExplicit++
		return nil
	})
	regHarness("vAtomicEnd", func(m *Machine, fr *frame, a []Value) Value {
		m.cur.atomicExplicit--
		return nil
	})
	regHarness("vBlockUntil", func(m *Machine, fr *frame, a []Value) Value {
		fn := a[0]
		m.blockUntil("vBlockUntil", func() bool {
			m.cur.atomicExplicit++
			defer func() { m.cur.atomicExplicit-- }()
			return m.branch(m.call(fr, 0, fn, nil).(*Term))
		})
		return nil
	})
	// vCallMethod(recv, name, args...) calls the (possibly unexported) method by name and returns its first result (nil
	// when it has none): harnesses stay compilable when the signature of a private function they use changes
	regHarness("vCallMethod", func(m *Machine, fr *frame, a []Value) Value {
		recv := a[0].(Iface)
		name := m.argStr(a[1], "vCallMethod")
		var pkg *types.Package
		if fr.caller != nil && fr.caller.fn.Pkg != nil {
			pkg = fr.caller.fn.Pkg.Pkg
		}
		fn := m.prog.LookupMethod(recv.T, pkg, name)
		if fn == nil {
			panic(unsupported{"vCallMethod: no method " + name + " on " + recv.T.String()})
		}
		args := []Value{recv.V}
		if a[2] != nil {
			for i, x := range a[2].([]Value) {
				v := x.(Iface).V
				// an interface-typed parameter keeps the interface value
				if i+1 < len(fn.Params) {
					if _, isIface := fn.Params[i+1].Type().Underlying().(*types.Interface); isIface {
						v = x
					}
				}
				args = append(args, v)
			}
		}
		// parameters the harness does not know about (added by a change to the code under test) get an arbitrary value of
		// their type: any value some caller may pass
		for len(args) < len(fn.Params) {
			pt := fn.Params[len(args)].Type()
			switch u := pt.Underlying().(type) {
			case *types.Basic:
				switch {
				case u.Info()&types.IsBoolean != 0:
					args = append(args, m.symBool("vcall_"+name+"_arg"+fmt.Sprint(len(args))))
				default:
					args = append(args, zero(pt))
				}
			default:
				args = append(args, zero(pt))
			}
		}
		if len(args) != len(fn.Params) {
			panic(unsupported{"vCallMethod: " + name + " takes fewer arguments than the harness passes"})
		}
		res := m.callSSA(fr, 0, fn, args, nil)
		results := fn.Signature.Results()
		switch results.Len() {
		case 0:
			return Iface{}
		case 1:
			if _, isIface := results.At(0).Type().Underlying().(*types.Interface); isIface {
				if res == nil {
					return Iface{}
				}
				return res
			}
			return Iface{T: results.At(0).Type(), V: res}
		}
		first := res.(Tuple)[0]
		if _, isIface := results.At(0).Type().Underlying().(*types.Interface); isIface {
			return first
		}
		return Iface{T: results.At(0).Type(), V: first}
	})
	// name-based access to private identifiers of the package under test: a harness that needs one keeps compiling when a
	// change removes or renames it (only the harnesses that use it become inconclusive, not every check)
	harnessPkg := func(fr *frame) *ssa.Package {
		if fr.caller != nil && fr.caller.fn.Pkg != nil {
			return fr.caller.fn.Pkg
		}
		panic(unsupported{"name-based intrinsic called outside a package"})
	}
	regHarness("vPkgVar", func(m *Machine, fr *frame, a []Value) Value {
		name := m.argStr(a[0], "vPkgVar")
		g := harnessPkg(fr).Var(name)
		if g == nil {
			panic(unsupported{"vPkgVar: the package has no variable " + name})
		}
		v := *m.globalAddr(g)
		t := deref(g.Type())
		if _, isIface := t.Underlying().(*types.Interface); isIface {
			return v
		}
		return Iface{T: t, V: v}
	})
	regHarness("vNewStruct", func(m *Machine, fr *frame, a []Value) Value {
		tname := m.argStr(a[0], "vNewStruct")
		fname := m.argStr(a[1], "vNewStruct")
		tn := harnessPkg(fr).Type(tname)
		if tn == nil {
			panic(unsupported{"vNewStruct: the package has no type " + tname})
		}
		st, ok := tn.Type().Underlying().(*types.Struct)
		if !ok {
			panic(unsupported{"vNewStruct: " + tname + " is not a struct"})
		}
		cell := zero(tn.Type())
		found := false
		for i := 0; i < st.NumFields(); i++ {
			if st.Field(i).Name() == fname {
				val := a[2]
				if _, isIface := st.Field(i).Type().Underlying().(*types.Interface); !isIface {
					val = a[2].(Iface).V
				}
				cell.(Struct)[i] = val
				found = true
			}
		}
		if !found {
			panic(unsupported{"vNewStruct: " + tname + " has no field " + fname})
		}
		p := new(Value)
		*p = cell
		return Iface{T: types.NewPointer(tn.Type()), V: p}
	})
	regHarness("vFieldOf", func(m *Machine, fr *frame, a []Value) Value {
		fname := m.argStr(a[1], "vFieldOf")
		x, ok := a[0].(Iface)
		if !ok || x.T == nil {
			return Iface{}
		}
		pt, ok := x.T.Underlying().(*types.Pointer)
		if !ok {
			panic(unsupported{"vFieldOf: not a pointer to a struct"})
		}
		st, ok := pt.Elem().Underlying().(*types.Struct)
		if !ok {
			panic(unsupported{"vFieldOf: not a pointer to a struct"})
		}
		p := x.V.(*Value)
		if p == nil {
			return Iface{}
		}
		for i := 0; i < st.NumFields(); i++ {
			if st.Field(i).Name() == fname {
				v := (*p).(Struct)[i]
				if _, isIface := st.Field(i).Type().Underlying().(*types.Interface); isIface {
					return v
				}
				return Iface{T: st.Field(i).Type(), V: v}
			}
		}
		panic(unsupported{"vFieldOf: no field " + fname})
	})
	regHarness("vPkgFunc", func(m *Machine, fr *frame, a []Value) Value {
		name := m.argStr(a[0], "vPkgFunc")
		fn := harnessPkg(fr).Func(name)
		if fn == nil {
			panic(unsupported{"vPkgFunc: the package has no function " + name})
		}
		args := []Value{}
		if a[1] != nil {
			for i, x := range a[1].([]Value) {
				v := x.(Iface).V
				if i < len(fn.Params) {
					if _, isIface := fn.Params[i].Type().Underlying().(*types.Interface); isIface {
						v = x
					}
				}
				args = append(args, v)
			}
		}
		if len(args) != len(fn.Params) {
			panic(unsupported{"vPkgFunc: " + name + " takes a different number of arguments"})
		}
		res := m.callSSA(fr, 0, fn, args, nil)
		results := fn.Signature.Results()
		if results.Len() == 0 {
			return Iface{}
		}
		first := res
		if results.Len() > 1 {
			first = res.(Tuple)[0]
		}
		if _, isIface := results.At(0).Type().Underlying().(*types.Interface); isIface {
			if first == nil {
				return Iface{}
			}
			return first
		}
		return Iface{T: results.At(0).Type(), V: first}
	})
	regHarness("vWatchStore", func(m *Machine, fr *frame, a []Value) Value {
		m.watches = append(m.watches, watch{field: a[0].(*Str).s, fn: a[1]})
		return nil
	})
	regHarness("vJoinAll", func(m *Machine, fr *frame, a []Value) Value {
		me := m.cur
		m.blockUntil("vJoinAll", func() bool {
			for _, g := range m.gs {
				if g != me && !g.done && !g.daemon {
					return false
				}
			}
			return true
		})
		for _, g := range m.gs {
			if g != me && g.done {
				joinVC(&me.vc, g.vc)
			}
		}
		return nil
	})
	regHarness("vT2", func(m *Machine, fr *frame, a []Value) Value {
		m.t2 = true
		m.maxPreempt = int(m.concInt(a[0].(*Term), "preemptions"))
		m.maxFirings = int(m.concInt(a[1].(*Term), "firings"))
		return nil
	})
	regHarness("vParam", func(m *Machine, fr *frame, a []Value) Value {
		name := m.argStr(a[0], "vParam name")
		if v, ok := m.params[name]; ok {
			return MkBV(64, uint64(int64(v)))
		}
		return a[1]
	})
	regHarness("vSchedPolicy", func(m *Machine, fr *frame, a []Value) Value {
		m.schedHighFirst = m.concInt(a[0].(*Term), "vSchedPolicy") == 1
		return nil
	})
	regHarness("vRaceCount", func(m *Machine, fr *frame, a []Value) Value { return MkBV(64, uint64(len(m.races))) })

	// ---------- strings ----------
	intrinsics["strings.HasPrefix"] = func(m *Machine, fr *frame, a []Value) Value {
		return StrHasPrefix(a[0].(*Str), a[1].(*Str))
	}
	intrinsics["strings.HasSuffix"] = func(m *Machine, fr *frame, a []Value) Value {
		return StrHasSuffix(a[0].(*Str), a[1].(*Str))
	}
	// three-way comparison: -1 / 0 / +1
	intrinsics["strings.Compare"] = func(m *Machine, fr *frame, a []Value) Value {
		x, y := a[0].(*Str), a[1].(*Str)
		return Ite(StrEq(x, y), MkBV(64, 0), Ite(StrLess(x, y), MkBV(64, ^uint64(0)), MkBV(64, 1)))
	}
	intrinsics["internal/bytealg.CompareString"] = intrinsics["strings.Compare"]
	intrinsics["strings.Index"] = func(m *Machine, fr *frame, a []Value) Value {
		return StrIndex(a[0].(*Str), a[1].(*Str))
	}
	intrinsics["strings.Contains"] = func(m *Machine, fr *frame, a []Value) Value {
		return BvCmp("bvsge", StrIndex(a[0].(*Str), a[1].(*Str)), MkBV(64, 0))
	}
	intrinsics["strings.IndexByte"] = func(m *Machine, fr *frame, a []Value) Value {
		return StrIndexByte(a[0].(*Str), a[1].(*Term))
	}
	intrinsics["strings.LastIndexByte"] = func(m *Machine, fr *frame, a []Value) Value {
		return StrLastIndexByte(a[0].(*Str), a[1].(*Term))
	}
	intrinsics["internal/bytealg.IndexByteString"] = intrinsics["strings.IndexByte"]
	intrinsics["internal/bytealg.LastIndexByteString"] = intrinsics["strings.LastIndexByte"]
	intrinsics["internal/stringslite.IndexByte"] = intrinsics["strings.IndexByte"]
	intrinsics["internal/stringslite.Index"] = intrinsics["strings.Index"]
	intrinsics["internal/stringslite.HasPrefix"] = intrinsics["strings.HasPrefix"]
	intrinsics["internal/stringslite.HasSuffix"] = intrinsics["strings.HasSuffix"]
	intrinsics["internal/stringslite.Clone"] = func(m *Machine, fr *frame, a []Value) Value { return a[0] }
	intrinsics["strings.Clone"] = intrinsics["internal/stringslite.Clone"]
	intrinsics["internal/bytealg.IndexByte"] = func(m *Machine, fr *frame, a []Value) Value {
		bs := a[0].([]Value)
		c := a[1].(*Term)
		res := MkBV(64, ^uint64(0))
		for k := len(bs) - 1; k >= 0; k-- {
			res = Ite(Eq(bs[k].(*Term), c), MkBV(64, uint64(k)), res)
		}
		return res
	}
	intrinsics["internal/bytealg.CountString"] = func(m *Machine, fr *frame, a []Value) Value {
		s := a[0].(*Str)
		c := a[1].(*Term)
		res := MkBV(64, 0)
		for k := 0; k < s.capacity(); k++ {
			in := BvCmp("bvult", MkBV(64, uint64(k)), s.Len())
			res = BvBin("bvadd", res, Ite(And(in, Eq(s.byteAt(k), c)), MkBV(64, 1), MkBV(64, 0)))
		}
		return res
	}
	intrinsics["strings.TrimPrefix"] = func(m *Machine, fr *frame, a []Value) Value {
		s, p := a[0].(*Str), a[1].(*Str)
		c := StrHasPrefix(s, p)
		if c.IsFalse() {
			return s
		}
		cut := StrSlice(s, p.Len(), s.Len())
		if c.IsTrue() {
			return cut
		}
		return strIte(c, cut, s)
	}
	intrinsics["strings.TrimSuffix"] = func(m *Machine, fr *frame, a []Value) Value {
		s, p := a[0].(*Str), a[1].(*Str)
		c := StrHasSuffix(s, p)
		if c.IsFalse() {
			return s
		}
		cut := StrSlice(s, MkBV(64, 0), BvBin("bvsub", s.Len(), p.Len()))
		if c.IsTrue() {
			return cut
		}
		return strIte(c, cut, s)
	}
	intrinsics["strings.Cut"] = func(m *Machine, fr *frame, a []Value) Value {
		s, sep := a[0].(*Str), a[1].(*Str)
		i := StrIndex(s, sep)
		found := BvCmp("bvsge", i, MkBV(64, 0))
		if found.IsFalse() {
			return Tuple{s, emptyStr, tFalse}
		}
		// guard index to keep slices well-formed when not found
		gi := Ite(found, i, MkBV(64, 0))
		before := StrSlice(s, MkBV(64, 0), gi)
		afterStart := Ite(found, BvBin("bvadd", gi, sep.Len()), s.Len())
		after := StrSlice(s, afterStart, s.Len())
		return Tuple{strIte(found, before, s), strIte(found, after, emptyStr), found}
	}
	intrinsics["strings.Join"] = func(m *Machine, fr *frame, a []Value) Value {
		elems := a[0].([]Value)
		sep := a[1].(*Str)
		var res *Str = emptyStr
		for i, e := range elems {
			if i > 0 {
				res = StrConcat(res, sep)
			}
			res = StrConcat(res, e.(*Str))
		}
		return res
	}
	intrinsics["strings.ToLower"] = func(m *Machine, fr *frame, a []Value) Value {
		s := a[0].(*Str)
		if s.conc {
			return ConcStr(strings.ToLower(s.s))
		}
		// ASCII-only model; non-ASCII bytes are left unchanged (documented bound)
		bs := make([]*Term, len(s.b))
		for i, b := range s.b {
			isUp := And(BvCmp("bvuge", b, MkBV(8, 'A')), BvCmp("bvule", b, MkBV(8, 'Z')))
			bs[i] = Ite(isUp, BvBin("bvadd", b, MkBV(8, 32)), b)
		}
		return &Str{n: s.n, b: bs}
	}
	intrinsics["strings.ReplaceAll"] = func(m *Machine, fr *frame, a []Value) Value {
		s := a[0].(*Str)
		old, nw := m.argStr(a[1], "ReplaceAll old"), m.argStr(a[2], "ReplaceAll new")
		if s.conc {
			return ConcStr(strings.ReplaceAll(s.s, old, nw))
		}
		if len(old) != 1 || len(nw) != 1 {
			panic(unsupported{"strings.ReplaceAll on symbolic string with multi-byte pattern"})
		}
		bs := make([]*Term, len(s.b))
		for i, b := range s.b {
			bs[i] = Ite(Eq(b, MkBV(8, uint64(old[0]))), MkBV(8, uint64(nw[0])), b)
		}
		return &Str{n: s.n, b: bs}
	}
	intrinsics["strings.Trim"] = func(m *Machine, fr *frame, a []Value) Value {
		s := a[0].(*Str)
		cut := m.argStr(a[1], "Trim cutset")
		if s.conc {
			return ConcStr(strings.Trim(s.s, cut))
		}
		if len(cut) != 1 {
			panic(unsupported{"strings.Trim with multi-char cutset on symbolic string"})
		}
		c := MkBV(8, uint64(cut[0]))
		// lo = number of leading c; hi = len - number of trailing c (>= lo)
		n := s.Len()
		capN := s.capacity()
		lo := n // if all bytes are c
		for k := capN - 1; k >= 0; k-- {
			in := BvCmp("bvult", MkBV(64, uint64(k)), n)
			lo = Ite(And(in, Not(Eq(s.byteAt(k), c))), MkBV(64, uint64(k)), lo)
		}
		hi := lo
		for k := 0; k < capN; k++ {
			in := BvCmp("bvult", MkBV(64, uint64(k)), n)
			hi = Ite(And(in, Not(Eq(s.byteAt(k), c))), MkBV(64, uint64(k+1)), hi)
		}
		return StrSlice(s, lo, hi)
	}
	intrinsics["strings.EqualFold"] = func(m *Machine, fr *frame, a []Value) Value {
		return MkBool(strings.EqualFold(m.argStr(a[0], "EqualFold"), m.argStr(a[1], "EqualFold")))
	}
	intrinsics["strings.Split"] = func(m *Machine, fr *frame, a []Value) Value {
		parts := strings.Split(m.argStr(a[0], "Split"), m.argStr(a[1], "Split"))
		out := make([]Value, len(parts))
		for i, p := range parts {
			out[i] = ConcStr(p)
		}
		return out
	}
	intrinsics["strings.TrimSpace"] = func(m *Machine, fr *frame, a []Value) Value {
		return ConcStr(strings.TrimSpace(m.argStr(a[0], "TrimSpace")))
	}
	intrinsics["strings.ToUpper"] = func(m *Machine, fr *frame, a []Value) Value {
		return ConcStr(strings.ToUpper(m.argStr(a[0], "ToUpper")))
	}
	intrinsics["strings.Repeat"] = func(m *Machine, fr *frame, a []Value) Value {
		return ConcStr(strings.Repeat(m.argStr(a[0], "Repeat"), int(m.concInt(a[1].(*Term), "Repeat"))))
	}

	intrinsics["strings.Count"] = func(m *Machine, fr *frame, a []Value) Value {
		s := a[0].(*Str)
		sub := m.argStr(a[1], "strings.Count substr")
		if s.conc {
			return MkBV(64, uint64(strings.Count(s.s, sub)))
		}
		if len(sub) != 1 {
			panic(unsupported{"strings.Count with multi-byte pattern on symbolic string"})
		}
		return intrinsics["internal/bytealg.CountString"](m, fr, []Value{s, MkBV(8, uint64(sub[0]))})
	}
	fmtInt := func(m *Machine, fr *frame, a []Value) Value {
		t := a[0].(*Term)
		if t.IsConst() {
			base := 10
			if len(a) > 1 {
				base = int(m.concInt(a[1].(*Term), "FormatInt base"))
			}
			return ConcStr(strconv.FormatInt(t.SVal(), base))
		}
		// symbolic number: an opaque non-empty string (the digits are not modelled)
		s := m.opaqueStr("itoa")
		m.assume(BvCmp("bvuge", s.n, MkBV(64, 1)))
		return s
	}
	intrinsics["strconv.FormatInt"] = fmtInt
	intrinsics["strconv.Itoa"] = fmtInt

	// ---------- net/http header helpers ----------
	canon := func(m *Machine, fr *frame, a []Value) Value {
		s := a[0].(*Str).normalize()
		if !s.conc {
			panic(unsupported{"CanonicalHeaderKey on symbolic header name"})
		}
		return ConcStr(http.CanonicalHeaderKey(s.s))
	}
	intrinsics["net/http.CanonicalHeaderKey"] = canon
	intrinsics["net/textproto.CanonicalMIMEHeaderKey"] = canon

	// ---------- misc ----------
	intrinsics["runtime.Gosched"] = func(m *Machine, fr *frame, a []Value) Value { m.schedPoint("gosched"); return nil }
	intrinsics["runtime.KeepAlive"] = func(m *Machine, fr *frame, a []Value) Value { return nil }
	intrinsics["runtime.SetFinalizer"] = func(m *Machine, fr *frame, a []Value) Value { return nil }
	intrinsics["internal/race.Enable"] = func(m *Machine, fr *frame, a []Value) Value { return nil }
	intrinsics["internal/race.Disable"] = func(m *Machine, fr *frame, a []Value) Value { return nil }
	intrinsics["internal/race.Acquire"] = func(m *Machine, fr *frame, a []Value) Value { return nil }
	intrinsics["internal/race.Release"] = func(m *Machine, fr *frame, a []Value) Value { return nil }
	intrinsics["internal/race.ReleaseMerge"] = func(m *Machine, fr *frame, a []Value) Value { return nil }
	intrinsics["internal/race.Read"] = func(m *Machine, fr *frame, a []Value) Value { return nil }
	intrinsics["internal/race.Write"] = func(m *Machine, fr *frame, a []Value) Value { return nil }
}

func strIte(c *Term, x, y *Str) *Str {
	if c.IsTrue() {
		return x
	}
	if c.IsFalse() {
		return y
	}
	cp := x.capacity()
	if y.capacity() > cp {
		cp = y.capacity()
	}
	bs := make([]*Term, cp)
	for i := range bs {
		bs[i] = Ite(c, x.byteAt(i), y.byteAt(i))
	}
	return &Str{n: Ite(c, x.Len(), y.Len()), b: bs}
}

// assumeChecked adds an assumption and kills the path if it is infeasible.
func (m *Machine) assumeChecked(c *Term) {
	if c.IsTrue() {
		return
	}
	if c.IsFalse() {
		m.pathDead = true
		panic(execAbort{})
	}
	// within the replayed prefix feasibility is already known only for branches; assumptions are re-checked
	ok := m.decideLazy("assume", func() []int {
		r := m.solver.CheckWith(c, false)
		if r == Unsat {
			return []int{0}
		}
		if r == Unknown {
			m.noteUnknown("assume")
		}
		return []int{1}
	})
	if ok == 0 {
		m.pathDead = true
		panic(execAbort{})
	}
	m.assume(c)
}

func (m *Machine) assertCond(c *Term, label string, fr *frame) {
	m.assertsChecked++
	if c.IsTrue() {
		return
	}
	pos := ""
	if fr != nil && fr.caller != nil {
		pos = fr.caller.fn.Name()
	}
	ok := m.decideLazy("assert", func() []int {
		r := m.solver.CheckWith(Not(c), true)
		switch r {
		case Unsat:
			return []int{1}
		case Unknown:
			m.noteUnknown("assert " + label)
			return []int{1}
		}
		model := m.solver.Model()
		m.solver.PopModelScope()
		v := m.violation("assert", label, "assertion can fail", model)
		v.Pos = pos
		// can the assertion also hold? then continue under that assumption
		if m.solver.CheckWith(c, false) == Unsat {
			return []int{0}
		}
		return []int{2}
	})
	switch ok {
	case 0:
		m.endReason = "assert-failed"
		panic(execAbort{})
	default:
		m.assume(c)
	}
}

var verbose = false

var _ = types.Identical
