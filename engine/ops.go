package main

import (
	"fmt"
	"go/token"
	"go/types"
	"sort"
	"strings"
	"unicode/utf8"

	"golang.org/x/tools/go/ssa"
)

func (m *Machine) unop(fr *frame, instr *ssa.UnOp, x Value) Value {
	switch instr.Op {
	case token.MUL: // load
		p := x.(*Value)
		if p == nil {
			m.rtPanic("invalid memory address or nil pointer dereference")
		}
		m.onAccess(fr, p, false, instr)
		return copyVal(*p)
	case token.NOT:
		return Not(x.(*Term))
	case token.SUB:
		t := x.(*Term)
		if t.S.K == SFP {
			return FpBin("fp.sub", MkFP(0), t)
		}
		return BvNeg(t)
	case token.XOR:
		return BvNot(x.(*Term))
	case token.ARROW:
		v, ok := m.chanRecv(x.(*ChanV))
		if v == nil {
			v = zero(instr.X.Type().Underlying().(*types.Chan).Elem())
		}
		if instr.CommaOk {
			return Tuple{v, MkBool(ok)}
		}
		return v
	}
	panic(unsupported{"unop " + instr.Op.String()})
}

func (m *Machine) binop(op token.Token, t types.Type, x, y Value) Value {
	switch op {
	case token.EQL:
		return m.eqVal(t, x, y)
	case token.NEQ:
		return Not(m.eqVal(t, x, y))
	}
	switch xv := x.(type) {
	case *Str:
		yv := y.(*Str)
		switch op {
		case token.ADD:
			return StrConcat(xv, yv)
		case token.LSS:
			return StrLess(xv, yv)
		case token.GTR:
			return StrLess(yv, xv)
		case token.LEQ:
			return Not(StrLess(yv, xv))
		case token.GEQ:
			return Not(StrLess(xv, yv))
		}
	case *Term:
		yv := y.(*Term)
		if xv.S.K == SFP {
			switch op {
			case token.ADD:
				return FpBin("fp.add", xv, yv)
			case token.SUB:
				return FpBin("fp.sub", xv, yv)
			case token.MUL:
				return FpBin("fp.mul", xv, yv)
			case token.QUO:
				return FpBin("fp.div", xv, yv)
			case token.LSS:
				return FpCmp("fp.lt", xv, yv)
			case token.LEQ:
				return FpCmp("fp.leq", xv, yv)
			case token.GTR:
				return FpCmp("fp.gt", xv, yv)
			case token.GEQ:
				return FpCmp("fp.geq", xv, yv)
			}
			panic(unsupported{"float binop " + op.String()})
		}
		if xv.S.K == SBool {
			switch op {
			case token.AND, token.LAND:
				return And(xv, yv)
			case token.OR, token.LOR:
				return Or(xv, yv)
			}
			panic(unsupported{"bool binop " + op.String()})
		}
		_, signed, _ := intInfo(t)
		switch op {
		case token.ADD:
			return BvBin("bvadd", xv, yv)
		case token.SUB:
			return BvBin("bvsub", xv, yv)
		case token.MUL:
			return BvBin("bvmul", xv, yv)
		case token.QUO, token.REM:
			if m.branch(Eq(yv, MkBV(yv.S.W, 0))) {
				m.rtPanic("integer divide by zero")
			}
			if op == token.QUO {
				if signed {
					return BvBin("bvsdiv", xv, yv)
				}
				return BvBin("bvudiv", xv, yv)
			}
			if signed {
				return BvBin("bvsrem", xv, yv)
			}
			return BvBin("bvurem", xv, yv)
		case token.AND:
			return BvBin("bvand", xv, yv)
		case token.OR:
			return BvBin("bvor", xv, yv)
		case token.XOR:
			return BvBin("bvxor", xv, yv)
		case token.AND_NOT:
			return BvBin("bvand", xv, BvNot(yv))
		case token.SHL, token.SHR:
			// shift count has its own type; normalise to operand width
			w := xv.S.W
			var cnt *Term
			if yv.S.W > w {
				// saturate
				big := BvCmp("bvuge", yv, MkBV(yv.S.W, uint64(w)))
				cnt = Ite(big, MkBV(w, uint64(w)), Extract(w-1, 0, yv))
			} else {
				cnt = ZExt(yv, w)
			}
			if op == token.SHL {
				return BvBin("bvshl", xv, cnt)
			}
			if signed {
				return BvBin("bvashr", xv, cnt)
			}
			return BvBin("bvlshr", xv, cnt)
		case token.LSS:
			if signed {
				return BvCmp("bvslt", xv, yv)
			}
			return BvCmp("bvult", xv, yv)
		case token.LEQ:
			if signed {
				return BvCmp("bvsle", xv, yv)
			}
			return BvCmp("bvule", xv, yv)
		case token.GTR:
			if signed {
				return BvCmp("bvsgt", xv, yv)
			}
			return BvCmp("bvugt", xv, yv)
		case token.GEQ:
			if signed {
				return BvCmp("bvsge", xv, yv)
			}
			return BvCmp("bvuge", xv, yv)
		}
	}
	panic(unsupported{fmt.Sprintf("binop %s on %T", op, x)})
}

// eqVal returns a Bool term for x == y.
func (m *Machine) eqVal(t types.Type, x, y Value) *Term {
	switch xv := x.(type) {
	case *Term:
		return Eq(xv, y.(*Term))
	case *Str:
		return StrEq(xv, y.(*Str))
	case *Value:
		return MkBool(xv == y.(*Value))
	case *MapV:
		return MkBool(xv == y.(*MapV))
	case *ChanV:
		return MkBool(xv == y.(*ChanV))
	case []Value:
		yv := y.([]Value)
		// only comparison with nil is legal
		return MkBool((xv == nil) == (yv == nil) && (xv == nil || yv == nil) && ((xv == nil) && (yv == nil)))
	case nil:
		return MkBool(y == nil)
	case *ssa.Function:
		if y == nil {
			return MkBool(xv == nil)
		}
		yf, ok := y.(*ssa.Function)
		return MkBool(ok && yf == xv)
	case *Closure:
		if y == nil {
			return MkBool(xv == nil)
		}
		yc, ok := y.(*Closure)
		return MkBool(ok && yc == xv)
	case *Native:
		yn, ok := y.(*Native)
		return MkBool(ok && yn == xv)
	case Iface:
		yv := y.(Iface)
		if xv.T == nil || yv.T == nil {
			return MkBool(xv.T == nil && yv.T == nil)
		}
		if !types.Identical(xv.T, yv.T) {
			return tFalse
		}
		return m.eqVal(xv.T, xv.V, yv.V)
	case Struct:
		yv := y.(Struct)
		st := t.Underlying().(*types.Struct)
		cs := []*Term{}
		for i := range xv {
			if st.Field(i).Name() == "_" {
				continue
			}
			cs = append(cs, m.eqVal(st.Field(i).Type(), xv[i], yv[i]))
		}
		return And(cs...)
	case Array:
		yv := y.(Array)
		et := t.Underlying().(*types.Array).Elem()
		cs := []*Term{}
		for i := range xv {
			cs = append(cs, m.eqVal(et, xv[i], yv[i]))
		}
		return And(cs...)
	}
	panic(unsupported{fmt.Sprintf("equality on %T", x)})
}

// eqDyn compares two values of unknown static type (used for map keys etc.)
func (m *Machine) eqDyn(x, y Value) *Term {
	switch xv := x.(type) {
	case Struct:
		yv, ok := y.(Struct)
		if !ok || len(xv) != len(yv) {
			return tFalse
		}
		cs := []*Term{}
		for i := range xv {
			cs = append(cs, m.eqDyn(xv[i], yv[i]))
		}
		return And(cs...)
	case Array:
		yv, ok := y.(Array)
		if !ok || len(xv) != len(yv) {
			return tFalse
		}
		cs := []*Term{}
		for i := range xv {
			cs = append(cs, m.eqDyn(xv[i], yv[i]))
		}
		return And(cs...)
	case Iface:
		yv, ok := y.(Iface)
		if !ok {
			return tFalse
		}
		if xv.T == nil || yv.T == nil {
			return MkBool(xv.T == nil && yv.T == nil)
		}
		if !types.Identical(xv.T, yv.T) {
			return tFalse
		}
		return m.eqDyn(xv.V, yv.V)
	case *Term:
		yv, ok := y.(*Term)
		if !ok || yv.S != xv.S {
			return tFalse
		}
		return Eq(xv, yv)
	case *Str:
		yv, ok := y.(*Str)
		if !ok {
			return tFalse
		}
		return StrEq(xv, yv)
	}
	return m.eqVal(nil, x, y)
}

func (m *Machine) conv(tDst, tSrc types.Type, x Value) Value {
	ud, us := tDst.Underlying(), tSrc.Underlying()
	// pointer / unsafe conversions
	switch ud.(type) {
	case *types.Pointer:
		return x
	case *types.Slice:
		// string -> []byte / []rune
		if s, ok := x.(*Str); ok {
			et := ud.(*types.Slice).Elem().Underlying().(*types.Basic)
			if et.Kind() == types.Uint8 {
				return m.strToBytes(s)
			}
			// []rune
			cs := m.concStr(s, "string->[]rune")
			var out []Value
			for _, r := range cs {
				out = append(out, MkBV(32, uint64(r)))
			}
			if out == nil {
				out = []Value{}
			}
			return out
		}
		return x
	}
	if b, ok := ud.(*types.Basic); ok && b.Kind() == types.UnsafePointer {
		return x
	}
	if isString(ud) {
		switch xv := x.(type) {
		case *Str:
			return xv
		case []Value:
			// []byte or []rune -> string
			if len(xv) == 0 {
				return emptyStr
			}
			et := us.(*types.Slice).Elem().Underlying().(*types.Basic)
			if et.Kind() == types.Uint8 {
				bs := make([]*Term, len(xv))
				for i, v := range xv {
					bs[i] = v.(*Term)
				}
				return (&Str{n: MkBV(64, uint64(len(xv))), b: bs}).normalize()
			}
			var rs []rune
			for _, v := range xv {
				t := v.(*Term)
				if !t.IsConst() {
					panic(unsupported{"symbolic []rune -> string"})
				}
				rs = append(rs, rune(t.SVal()))
			}
			return ConcStr(string(rs))
		case *Term:
			// integer -> string (rune)
			if xv.IsConst() {
				return ConcStr(string(rune(xv.SVal())))
			}
			// symbolic rune: support ASCII only by path split
			if m.branch(BvCmp("bvult", ZExt(xv, 64), MkBV(64, 0x80))) {
				return (&Str{n: MkBV(64, 1), b: []*Term{Extract(7, 0, xv)}})
			}
			panic(unsupported{"symbolic non-ASCII rune -> string"})
		}
	}
	if xt, ok := x.(*Term); ok {
		if isFloat(ud) {
			if xt.S.K == SFP {
				if b := ud.(*types.Basic); b.Kind() == types.Float32 {
					if xt.IsConst() {
						return MkFP(float64(float32(xt.FVal())))
					}
					panic(unsupported{"symbolic float32"})
				}
				return xt
			}
			_, signed, _ := intInfo(us)
			return FpFromBV(xt, signed)
		}
		if wd, sd, ok := intInfo(ud); ok {
			if xt.S.K == SFP {
				return FpToBV(xt, wd, sd)
			}
			if xt.S.K == SBool {
				panic(unsupported{"bool->int conv"})
			}
			_, ss, _ := intInfo(us)
			if xt.S.W >= wd {
				return Extract(wd-1, 0, xt)
			}
			if ss {
				return SExt(xt, wd)
			}
			return ZExt(xt, wd)
		}
		if isBool(ud) {
			return xt
		}
	}
	panic(unsupported{fmt.Sprintf("conversion %s -> %s (%T)", tSrc, tDst, x)})
}

func (m *Machine) strToBytes(s *Str) []Value {
	if s.conc {
		out := make([]Value, len(s.s))
		for i := 0; i < len(s.s); i++ {
			out[i] = MkBV(8, uint64(s.s[i]))
		}
		return out
	}
	n := int(m.concretize(s.n, 0, int64(len(s.b)), "string->[]byte length"))
	out := make([]Value, n)
	for i := 0; i < n; i++ {
		out[i] = s.b[i]
	}
	return out
}

// concStr requires a concrete string.
func (m *Machine) concStr(s *Str, why string) string {
	s = s.normalize()
	if !s.conc {
		panic(unsupported{"symbolic string where concrete required: " + why})
	}
	return s.s
}

func (m *Machine) concInt(t *Term, why string) int64 {
	if !t.IsConst() {
		panic(unsupported{"symbolic int where concrete required: " + why})
	}
	return t.SVal()
}

// concretize forks over the feasible values of t in [lo,hi].
func (m *Machine) concretize(t *Term, lo, hi int64, why string) int64 {
	if t.IsConst() {
		return t.SVal()
	}
	w := t.S.W
	v := m.decideLazy("conc:"+why, func() []int {
		// enumerate feasible values through the solver's models (k+1 queries for k values)
		var opts []int
		inRange := And(BvCmp("bvsle", MkBV(w, uint64(lo)), t), BvCmp("bvsle", t, MkBV(w, uint64(hi))))
		excl := []*Term{inRange}
		for len(opts) <= 4096 {
			r := m.solver.CheckWith(And(excl...), true)
			if r == Unknown {
				m.noteUnknown("concretize " + why)
				break
			}
			if r == Unsat {
				break
			}
			model := m.solver.Model()
			m.solver.PopModelScope()
			val := sext(evalTerm(t, model, map[*Term]uint64{}), w)
			opts = append(opts, int(val))
			excl = append(excl, Not(Eq(t, MkBV(w, uint64(val)))))
		}
		sort.Ints(opts)
		// anything outside the range?
		if r := m.solver.CheckWith(Not(inRange), false); r != Unsat {
			opts = append(opts, int(hi+1))
		}
		return opts
	})
	if int64(v) == hi+1 {
		panic(unsupported{fmt.Sprintf("concretize %s: value outside [%d,%d] feasible", why, lo, hi)})
	}
	m.assume(Eq(t, MkBV(w, uint64(int64(v)))))
	return int64(v)
}

// checkIndex bounds-checks idx against n and returns a concrete index (forking if symbolic).
func (m *Machine) checkIndex(idx *Term, it types.Type, n int) int {
	if idx.IsConst() {
		_, signed, _ := intInfo(it)
		var i int64
		if signed {
			i = idx.SVal()
		} else {
			i = int64(idx.C)
		}
		if i < 0 || i >= int64(n) {
			m.rtPanic(fmt.Sprintf("index out of range [%d] with length %d", i, n))
		}
		return int(i)
	}
	w := idx.S.W
	inRange := BvCmp("bvult", idx, MkBV(w, uint64(n)))
	if !m.branch(inRange) {
		m.rtPanic(fmt.Sprintf("index out of range [sym] with length %d", n))
	}
	return int(m.concretize(idx, 0, int64(n-1), "index"))
}

func (m *Machine) strIndex(s *Str, idx *Term, it types.Type) Value {
	i64 := idx
	if idx.S.W < 64 {
		_, signed, _ := intInfo(it)
		if signed {
			i64 = SExt(idx, 64)
		} else {
			i64 = ZExt(idx, 64)
		}
	}
	if !m.branch(BvCmp("bvult", i64, s.Len())) {
		m.rtPanic("index out of range (string)")
	}
	return StrIndexSym(s, i64)
}

func to64(t *Term, typ types.Type) *Term {
	if t.S.W == 64 {
		return t
	}
	_, signed, _ := intInfo(typ)
	if signed {
		return SExt(t, 64)
	}
	return ZExt(t, 64)
}

func (m *Machine) slice(instr *ssa.Slice, x, lo, hi, max Value) Value {
	var loT, hiT *Term
	if lo != nil {
		loT = to64(lo.(*Term), instr.Low.Type())
	} else {
		loT = MkBV(64, 0)
	}
	if hi != nil {
		hiT = to64(hi.(*Term), instr.High.Type())
	}
	switch xv := x.(type) {
	case *Str:
		if hiT == nil {
			hiT = xv.Len()
		}
		ok := And(BvCmp("bvule", loT, hiT), BvCmp("bvule", hiT, xv.Len()))
		if !m.branch(ok) {
			m.rtPanic("slice bounds out of range (string)")
		}
		return StrSlice(xv, loT, hiT)
	case []Value:
		return m.sliceOf(xv, cap(xv), loT, hiT, max, instr)
	case *Value:
		if xv == nil {
			m.rtPanic("nil pointer dereference (slice of *array)")
		}
		a := []Value((*xv).(Array))
		return m.sliceOf(a, len(a), loT, hiT, max, instr)
	}
	panic(unsupported{fmt.Sprintf("slice of %T", x)})
}

func (m *Machine) sliceOf(xv []Value, capx int, loT, hiT *Term, max Value, instr *ssa.Slice) Value {
	if hiT == nil {
		hiT = MkBV(64, uint64(len(xv)))
	}
	mx := capx
	if max != nil {
		mt := to64(max.(*Term), instr.Max.Type())
		if !m.branch(BvCmp("bvule", mt, MkBV(64, uint64(capx)))) {
			m.rtPanic("slice bounds out of range (max)")
		}
		mx = int(m.concretize(mt, 0, int64(capx), "slice max"))
	}
	ok := And(BvCmp("bvule", loT, hiT), BvCmp("bvule", hiT, MkBV(64, uint64(mx))))
	if !m.branch(ok) {
		m.rtPanic("slice bounds out of range")
	}
	h := int(m.concretize(hiT, 0, int64(mx), "slice high"))
	l := int(m.concretize(loT, 0, int64(h), "slice low"))
	if xv == nil && l == 0 && h == 0 {
		return []Value(nil)
	}
	return xv[l:h:mx]
}

func (m *Machine) lookup(instr *ssa.Lookup, x, idx Value) Value {
	mp, ok := x.(*MapV)
	if !ok {
		panic(unsupported{fmt.Sprintf("lookup on %T", x)})
	}
	var v Value
	found := false
	if mp != nil {
		m.onMapAccess(nil, mp, false, instr)
		if e := m.mapFind(mp, idx); e != nil {
			v, found = copyVal(e.val), true
		}
	}
	if !found {
		v = zero(instr.X.Type().Underlying().(*types.Map).Elem())
	}
	if instr.CommaOk {
		return Tuple{v, MkBool(found)}
	}
	return v
}

// mapFind locates the entry whose key equals key, forking on symbolic equality.
func (m *Machine) mapFind(mp *MapV, key Value) *mapEntry {
	for _, e := range mp.entries {
		if e.deleted {
			continue
		}
		if m.branch(m.eqDyn(key, e.key)) {
			return e
		}
	}
	return nil
}

func (m *Machine) mapSet(mp *MapV, key, val Value) {
	if e := m.mapFind(mp, key); e != nil {
		e.val = val
		return
	}
	mp.entries = append(mp.entries, &mapEntry{key: key, val: val})
}

func (m *Machine) typeAssert(instr *ssa.TypeAssert, itf Iface) Value {
	var ok bool
	var v Value
	if itf.T != nil {
		if idst, isI := instr.AssertedType.Underlying().(*types.Interface); isI {
			ok = types.Implements(itf.T, idst)
			if ok {
				v = itf
			}
		} else if types.Identical(itf.T, instr.AssertedType) {
			ok = true
			v = copyVal(itf.V)
		}
	}
	if !ok {
		if !instr.CommaOk {
			panic(targetPanic{Iface{T: m.runtimeErrorString, V: ConcStr(fmt.Sprintf("interface conversion: interface is %v, not %v", itf.T, instr.AssertedType))}})
		}
		v = zero(instr.AssertedType)
	}
	if instr.CommaOk {
		return Tuple{v, MkBool(ok)}
	}
	return v
}

// ---- iteration ----

type iterator interface {
	next(m *Machine) Tuple
}

type mapIter struct {
	mp        *MapV
	remaining []*mapEntry
	fixed     bool
}

func (it *mapIter) next(m *Machine) Tuple {
	// drop entries deleted meanwhile
	var rem []*mapEntry
	for _, e := range it.remaining {
		if !e.deleted {
			rem = append(rem, e)
		}
	}
	it.remaining = rem
	if len(rem) == 0 {
		return Tuple{tFalse, nil, nil}
	}
	k := 0
	if len(rem) > 1 && !m.mapOrderFixed && !it.fixed {
		opts := make([]int, len(rem))
		for i := range opts {
			opts[i] = i
		}
		k = m.decideLazy("maporder", func() []int { return opts })
	}
	e := rem[k]
	it.remaining = append(append([]*mapEntry{}, rem[:k]...), rem[k+1:]...)
	return Tuple{tTrue, e.key, copyVal(e.val)}
}

type strIter struct {
	s *Str
	i int
}

func (it *strIter) next(m *Machine) Tuple {
	s := it.s
	if s.conc {
		if it.i >= len(s.s) {
			return Tuple{tFalse, MkBV(64, 0), MkBV(32, 0)}
		}
		r, sz := utf8.DecodeRuneInString(s.s[it.i:])
		idx := it.i
		it.i += sz
		return Tuple{tTrue, MkBV(64, uint64(idx)), MkBV(32, uint64(r))}
	}
	if !m.branch(BvCmp("bvult", MkBV(64, uint64(it.i)), s.n)) {
		return Tuple{tFalse, MkBV(64, 0), MkBV(32, 0)}
	}
	c := s.byteAt(it.i)
	if !m.branch(BvCmp("bvult", c, MkBV(8, 0x80))) {
		panic(unsupported{"non-ASCII byte in range over symbolic string"})
	}
	idx := it.i
	it.i++
	return Tuple{tTrue, MkBV(64, uint64(idx)), ZExt(c, 32)}
}

func (m *Machine) rangeIter(x Value, t types.Type) iterator {
	switch x := x.(type) {
	case *MapV:
		if x == nil {
			return &mapIter{}
		}
		m.onMapAccess(nil, x, false, nil)
		it := &mapIter{mp: x, remaining: x.live()}
		ts := t.String()
		for _, ft := range m.fixedOrderTypes {
			if strings.Contains(ts, ft) {
				it.fixed = true
			}
		}
		return it
	case *Str:
		return &strIter{s: x}
	}
	panic(unsupported{fmt.Sprintf("range over %T", x)})
}
