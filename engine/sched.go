package main

import (
	"fmt"
	"go/types"
	"os"
	"runtime"
	"strings"
	"sync"

	"golang.org/x/tools/go/ssa"
)

type G struct {
	id             int
	name           string
	resume         chan struct{}
	done           bool
	started        bool
	blockedOn      func() bool
	blockDesc      string
	daemon         bool
	atomicDepth    int
	atomicExplicit int   // vAtomicBegin/End, package initialisers, harness conditions
	vc             []int // vector clock
	fn             func()
	waitChans      []*ChanV // channels this goroutine is blocked on (recv / select)
}

type Timer struct {
	id         int
	deadline   *Term // BV64 ns
	fire       func()
	period     *Term // nil for one-shot
	active     bool
	desc       string
	dormant    func() bool
	wasDormant bool
	ch         *ChanV // channel fed by this timer, if any
	vc         []int  // creator's clock: the firing happens after the creation
}

type ChanV struct {
	id       int
	capacity int
	buf      []Value
	closed   bool
	// rendezvous for unbuffered channels
	recvWaiting int
	pendingSend []*pendingSend
	vc          []int  // happens-before carried by close/send
	timer       *Timer // set for channels fed by time.After / Ticker / Timer
}

type pendingSend struct {
	v     Value
	taken bool
	g     *G
}

type sched struct {
	t2             bool
	gs             []*G
	cur            *G
	now            *Term
	timers         []*Timer
	timerSeq       int
	chanSeq        int
	preemptions    int
	maxPreempt     int
	firings        int
	maxFirings     int
	killing        bool
	schedHighFirst bool
	lastSwitch     string
	execDone       chan struct{}
	wg             sync.WaitGroup
	horizon        bool
	deadlock       bool
	abortErr       any
	races          []*raceRec
	shadow         map[*Value]*shadowCell
	mapShadow      map[*MapV]*shadowCell
	mutexes        map[*Value]*mutexState
	wgroups        map[*Value]*wgState
	onces          map[*Value]*onceState
	raceSites      map[string]bool
}

type mutexState struct {
	waitingWriters int
	locked         bool
	readers        int
	rvc            []int // released by readers (RUnlock)
	vc             []int
	owner          *G
}

type wgState struct {
	n  int64
	vc []int
}

type onceState struct {
	done    bool
	running bool
	vc      []int
}

func (m *Machine) resetSched() {
	m.sched = sched{t2: m.sched.t2, maxPreempt: m.sched.maxPreempt, maxFirings: m.sched.maxFirings}
	m.now = MkBV(64, 0)
	m.execDone = make(chan struct{}, 1)
	m.shadow = map[*Value]*shadowCell{}
	m.mapShadow = map[*MapV]*shadowCell{}
	m.mutexes = map[*Value]*mutexState{}
	m.wgroups = map[*Value]*wgState{}
	m.onces = map[*Value]*onceState{}
	m.raceSites = map[string]bool{}
}

// newG creates a simulated goroutine backed by a real one that waits for the baton.
func (m *Machine) newG(name string, fn func()) *G {
	g := &G{id: len(m.gs), name: name, resume: make(chan struct{}), fn: fn}
	if m.cur != nil {
		// fork happens-before
		g.vc = append([]int{}, m.cur.vc...)
		m.tick(m.cur)
	}
	for len(g.vc) <= g.id {
		g.vc = append(g.vc, 0)
	}
	g.vc[g.id] = 1
	m.gs = append(m.gs, g)
	m.wg.Add(1)
	go func() {
		defer m.wg.Done()
		<-g.resume
		if m.killing {
			g.done = true
			return
		}
		g.started = true
		defer func() {
			p := recover()
			g.done = true
			if p != nil {
				switch pv := p.(type) {
				case execAbort:
				case targetPanic:
					if !m.killing {
						m.reportPanic(g, pv)
					}
				default:
					if !m.killing && m.abortErr == nil {
						m.abortErr = p
					}
				}
				m.finishExecution()
				return
			}
			if m.killing {
				return
			}
			if g.id == 0 {
				m.finishExecution()
				return
			}
			// normal exit of a secondary goroutine: hand the baton on
			m.tick(g)
			m.switchAway(g)
		}()
		g.fn()
	}()
	return g
}

func (m *Machine) finishExecution() {
	if !m.killing {
		m.killing = true
		select {
		case m.execDone <- struct{}{}:
		default:
		}
	}
}

func (m *Machine) abortExecution(reason string) {
	m.endReason = reason
	panic(execAbort{})
}

func (m *Machine) tick(g *G) {
	for len(g.vc) <= g.id {
		g.vc = append(g.vc, 0)
	}
	g.vc[g.id]++
}

var vcDebug = os.Getenv("GOSYM_VCDEBUG") != ""
var schedDebug = os.Getenv("GOSYM_SCHEDDEBUG") != ""

func joinVC(dst *[]int, src []int) {
	if vcDebug && len(src) > 3 && (len(*dst) <= 3 || src[3] > (*dst)[3]) && src[3] > 1 {
		buf := make([]byte, 4096)
		n := runtime.Stack(buf, false)
		lines := strings.Split(string(buf[:n]), "\n")
		out := ""
		for i, l := range lines {
			if strings.Contains(l, "main.") && i < 24 {
				out += " | " + strings.TrimSpace(l)
			}
		}
		fmt.Printf("VCJOIN dst=%v src=%v%s\n", *dst, src, out)
	}
	for len(*dst) < len(src) {
		*dst = append(*dst, 0)
	}
	for i, v := range src {
		if v > (*dst)[i] {
			(*dst)[i] = v
		}
	}
}

func (m *Machine) enabled(g *G) bool {
	if g.done {
		return false
	}
	if g.blockedOn == nil {
		return true
	}
	return g.blockedOn()
}

// switchAway is called by a goroutine that cannot (or must not) continue: it picks the next goroutine,
// hands over the baton and (unless finished) waits to be resumed.
func (m *Machine) switchAway(cur *G) {
	spins := 0
	for {
		spins++
		if spins > 5000 {
			desc := ""
			for _, g := range m.gs {
				if !g.done {
					desc += fmt.Sprintf(" g%d(%s):%s", g.id, g.name, g.blockDesc)
				}
			}
			td := ""
			for _, t := range m.timers {
				if t.active {
					td += " " + t.desc
				}
			}
			panic(unsupported{"scheduler livelock:" + desc + " timers:" + td})
		}
		var en []*G
		for _, g := range m.gs {
			if m.enabled(g) {
				en = append(en, g)
			}
		}
		if len(en) == 0 {
			if m.advanceTime() {
				continue
			}
			if m.horizon {
				if cur.done {
					m.finishExecution()
					return
				}
				panic(execAbort{})
			}
			// nothing can run and no timer pending
			blockedNonDaemon := false
			desc := ""
			for _, g := range m.gs {
				if !g.done && !g.daemon {
					blockedNonDaemon = true
					desc += fmt.Sprintf(" g%d(%s) blocked on %s;", g.id, g.name, g.blockDesc)
				}
			}
			if blockedNonDaemon {
				m.deadlock = true
				m.violations = append(m.violations, &Violation{Kind: "deadlock", Label: "deadlock", Detail: desc, Choices: append([]int{}, m.forced[:m.pos]...)})
			}
			m.endReason = "quiescent"
			if cur.done {
				m.finishExecution()
				return
			}
			panic(execAbort{})
		}
		// delay-bounded scheduling: the default at a blocking point is the lowest-numbered enabled goroutine;
		// choosing another one costs one unit of the same budget that preemptions draw from
		def := en[0]
		if m.schedHighFirst {
			def = en[len(en)-1] // alternative default policy: the most recently started enabled goroutine runs first
		}
		next := def
		if len(en) > 1 && m.preemptions < m.maxPreempt {
			opts := make([]int, len(en))
			for i, g := range en {
				opts[i] = g.id
			}
			id := m.decideLazy("sched", func() []int { return opts })
			next = m.gs[id]
			if next != def {
				m.preemptions++
			}
		}
		if next == cur {
			m.lastSwitch = fmt.Sprintf("self(en=%d,def=%d,done=%v)", len(en), def.id, cur.done)
			cur.blockedOn = nil
			return
		}
		m.lastSwitch = fmt.Sprintf("g%d->g%d", cur.id, next.id)
		if schedDebug {
			fmt.Printf("SWITCH g%d(%s,%s) -> g%d(%s) steps=%d\n", cur.id, cur.name, cur.blockDesc, next.id, next.name, m.steps)
		}
		m.cur = next
		next.blockedOn = nil
		next.resume <- struct{}{}
		if cur.done {
			return
		}
		<-cur.resume
		if m.killing {
			panic(execAbort{})
		}
		m.cur = cur
		return
	}
}

// blockUntil blocks the current goroutine until cond holds.
func (m *Machine) blockUntil(desc string, cond func() bool) {
	g := m.cur
	// blockUntil may be entered while a scheduling condition of another goroutine is being evaluated in this
	// goroutine's context (a harness condition that takes a lock): the outer blocked state must survive
	prevCond, prevDesc := g.blockedOn, g.blockDesc
	spins := 0
	for !cond() {
		spins++
		if spins > 5000 {
			panic(unsupported{"blockUntil livelock in g" + fmt.Sprint(g.id) + " " + g.name + " on " + desc + " lastSwitch=" + m.lastSwitch})
		}
		g.blockedOn = cond
		g.blockDesc = desc
		m.switchAway(g)
	}
	g.blockedOn, g.blockDesc = prevCond, prevDesc
}

// schedPoint is a potential preemption point.
func (m *Machine) schedPoint(kind string) {
	if !m.t2 {
		return
	}
	g := m.cur
	if g.atomicDepth > 0 || g.atomicExplicit > 0 || m.preemptions >= m.maxPreempt {
		return
	}
	var others []*G
	for _, o := range m.gs {
		if o != g && m.enabled(o) {
			others = append(others, o)
		}
	}
	if len(others) == 0 {
		return
	}
	opts := []int{-1}
	for _, o := range others {
		opts = append(opts, o.id)
	}
	c := m.decideLazy("preempt:"+kind, func() []int { return opts })
	if c == -1 {
		return
	}
	m.preemptions++
	next := m.gs[c]
	m.cur = next
	next.blockedOn = nil
	next.resume <- struct{}{}
	<-g.resume
	if m.killing {
		panic(execAbort{})
	}
	m.cur = g
}

// yieldFree lets any other enabled goroutine run without counting a preemption (used at environment calls).
func (m *Machine) yieldFree() {
	if !m.t2 {
		return
	}
	g := m.cur
	woke := false
	g.blockedOn = func() bool { return true }
	g.blockDesc = "yield"
	_ = woke
	m.switchAway(g)
}

func (m *Machine) goStmt(fr *frame, instr *ssa.Go, fn Value, args []Value) {
	name := "go"
	switch f := fn.(type) {
	case *ssa.Function:
		name = f.Name()
	case *Closure:
		name = f.Fn.Name()
	}
	g := m.newG(name, nil)
	g.fn = func() {
		m.call(nil, instr.Pos(), fn, args)
	}
	if fr.g.atomicExplicit > 0 && len(m.initStack) > 0 {
		g.daemon = true
	}
	m.schedPoint("go")
}

// ---- time ----

func (m *Machine) addTimer(d *Term, desc string, fire func()) *Timer {
	m.timerSeq++
	// deadline = now + max(d, 0)
	dd := Ite(BvCmp("bvslt", d, MkBV(64, 0)), MkBV(64, 0), d)
	t := &Timer{id: m.timerSeq, deadline: BvBin("bvadd", m.now, dd), fire: fire, active: true, desc: desc}
	if m.cur != nil {
		t.vc = append([]int{}, m.cur.vc...)
	}
	m.timers = append(m.timers, t)
	return t
}

// advanceTime fires one pending timer that can be the earliest; returns false if none is pending.
func (m *Machine) advanceTime() bool {
	waited := map[*ChanV]bool{}
	for _, g := range m.gs {
		if !g.done && g.blockedOn != nil {
			for _, c := range g.waitChans {
				waited[c] = true
			}
		}
	}
	var act []*Timer
	for _, t := range m.timers {
		if t.active {
			if t.ch != nil && !waited[t.ch] {
				// nobody is waiting for this channel: its firing is unobservable until someone looks at the
				// channel (lazyTimer), so it does not drive the clock
				continue
			}
			if t.dormant != nil && t.dormant() {
				// a periodic timer whose tick would be dropped (channel full): firing it changes nothing
				t.wasDormant = true
				continue
			}
			if t.wasDormant {
				// re-armed once its channel has been drained
				t.wasDormant = false
				t.deadline = BvBin("bvadd", m.now, t.period)
			}
			act = append(act, t)
		}
	}
	// periodic timers with structurally identical deadlines (tickers created together with the same period) fire in
	// creation order: their mutual order at the same instant is not explored (stated bound)
	if len(act) > 1 {
		var keep []*Timer
		for _, t := range act {
			dup := false
			for _, k := range keep {
				if t.period != nil && k.period != nil && structEq(t.deadline, k.deadline) {
					dup = true
					break
				}
			}
			if !dup {
				keep = append(keep, t)
			}
		}
		act = keep
	}
	if len(act) == 0 {
		return false
	}
	if m.firings >= m.maxFirings {
		m.horizon = true
		m.endReason = "horizon"
		return false
	}
	earliest := func(t *Timer) *Term {
		cs := []*Term{}
		for _, o := range act {
			if o != t {
				cs = append(cs, BvCmp("bvule", t.deadline, o.deadline))
			}
		}
		return And(cs...)
	}
	idx := 0
	if len(act) > 1 {
		idx = m.decideLazy("timer", func() []int {
			var opts []int
			for i, t := range act {
				c := earliest(t)
				if c.IsTrue() {
					opts = append(opts, i)
					continue
				}
				r := m.solver.CheckWith(c, false)
				if r == Unknown {
					m.noteUnknown("timer order")
				}
				if r != Unsat {
					opts = append(opts, i)
				}
			}
			return opts
		})
	}
	t := act[idx]
	if trailDebug {
		ds := ""
		for i, a := range act {
			ds += fmt.Sprintf(" [%d]%s#%d", i, a.desc, a.id)
		}
		fmt.Printf("TIMER fire idx=%d of%s\n", idx, ds)
	}
	m.assume(earliest(t))
	m.now = t.deadline
	m.firings++
	if t.ch != nil {
		joinVC(&t.ch.vc, t.vc)
	}
	if t.period != nil {
		t.deadline = BvBin("bvadd", m.now, t.period)
	} else {
		t.active = false
	}
	t.fire()
	return true
}

// ---- channels ----

func (m *Machine) newChan(capacity int) *ChanV {
	m.chanSeq++
	return &ChanV{id: m.chanSeq, capacity: capacity}
}

func (m *Machine) chanSend(c *ChanV, v Value) {
	m.schedPoint("send")
	if c == nil {
		m.blockUntil("send on nil chan", func() bool { return false })
	}
	if c.closed {
		panic(targetPanic{Iface{T: m.runtimeErrorString, V: ConcStr("send on closed channel")}})
	}
	m.tick(m.cur)
	if c.capacity > 0 {
		m.blockUntil("chan send (full)", func() bool { return len(c.buf) < c.capacity || c.closed })
		if c.closed {
			panic(targetPanic{Iface{T: m.runtimeErrorString, V: ConcStr("send on closed channel")}})
		}
		joinVC(&c.vc, m.cur.vc)
		c.buf = append(c.buf, v)
		return
	}
	// unbuffered: offer and wait until taken
	ps := &pendingSend{v: v, g: m.cur}
	joinVC(&c.vc, m.cur.vc)
	c.pendingSend = append(c.pendingSend, ps)
	m.blockUntil("chan send (rendezvous)", func() bool { return ps.taken || c.closed })
	if !ps.taken {
		panic(targetPanic{Iface{T: m.runtimeErrorString, V: ConcStr("send on closed channel")}})
	}
}

func (c *ChanV) canRecv() bool {
	if len(c.buf) > 0 || c.closed {
		return true
	}
	for _, ps := range c.pendingSend {
		if !ps.taken {
			return true
		}
	}
	return false
}

func (m *Machine) chanTake(c *ChanV) (Value, bool) {
	m.acq(c.vc, "sched.go#1")
	if len(c.buf) > 0 {
		v := c.buf[0]
		c.buf = c.buf[1:]
		return v, true
	}
	for i, ps := range c.pendingSend {
		if !ps.taken {
			ps.taken = true
			c.pendingSend = append(append([]*pendingSend{}, c.pendingSend[:i]...), c.pendingSend[i+1:]...)
			return ps.v, true
		}
	}
	return nil, false // closed
}

// lazyTimer: a goroutine looks at a timer-fed channel: if the timer's deadline may already have passed (it was not
// waited for, so it did not drive the clock), decide now whether it has.
func (m *Machine) lazyTimer(c *ChanV) {
	t := c.timer
	if t == nil || !t.active || len(c.buf) > 0 {
		return
	}
	if m.branch(BvCmp("bvsle", t.deadline, m.now)) {
		if t.period != nil {
			// a slow receiver: missed ticks are dropped, the next one comes a full period from now
			t.deadline = BvBin("bvadd", m.now, t.period)
		} else {
			t.active = false
		}
		t.fire()
	}
}

func (m *Machine) chanRecv(c *ChanV) (Value, bool) {
	m.schedPoint("recv")
	if c == nil {
		m.blockUntil("recv on nil chan", func() bool { return false })
	}
	m.lazyTimer(c)
	g := m.cur
	g.waitChans = []*ChanV{c}
	m.blockUntil("chan recv", c.canRecv)
	g.waitChans = nil
	return m.chanTake(c)
}

func (m *Machine) chanClose(c *ChanV) {
	m.schedPoint("close")
	if c == nil {
		panic(targetPanic{Iface{T: m.runtimeErrorString, V: ConcStr("close of nil channel")}})
	}
	if c.closed {
		panic(targetPanic{Iface{T: m.runtimeErrorString, V: ConcStr("close of closed channel")}})
	}
	m.tick(m.cur)
	joinVC(&c.vc, m.cur.vc)
	c.closed = true
}

func (m *Machine) selectStmt(fr *frame, instr *ssa.Select) Value {
	m.schedPoint("select")
	type cs struct {
		c    *ChanV
		send bool
		v    Value
	}
	var cases []cs
	for _, st := range instr.States {
		c, _ := fr.get(st.Chan).(*ChanV)
		k := cs{c: c, send: st.Dir == types.SendOnly}
		if k.send {
			k.v = fr.get(st.Send)
		}
		cases = append(cases, k)
	}
	ready := func() []int {
		var r []int
		for i, k := range cases {
			if k.c == nil {
				continue
			}
			if k.send {
				if k.c.closed || (k.c.capacity > 0 && len(k.c.buf) < k.c.capacity) || (k.c.capacity == 0 && k.c.recvWaiting > 0) {
					r = append(r, i)
				}
			} else if k.c.canRecv() {
				r = append(r, i)
			}
		}
		return r
	}
	for _, k := range cases {
		if k.c != nil && !k.send {
			m.lazyTimer(k.c)
		}
	}
	r := ready()
	chosen := -1
	if len(r) == 0 {
		if !instr.Blocking {
			chosen = -1
		} else {
			for _, k := range cases {
				if k.send && k.c != nil && k.c.capacity == 0 {
					panic(unsupported{"blocking select with unbuffered send"})
				}
			}
			g := m.cur
			for _, k := range cases {
				if k.c != nil && !k.send {
					g.waitChans = append(g.waitChans, k.c)
				}
			}
			m.blockUntil("select", func() bool { return len(ready()) > 0 })
			g.waitChans = nil
			r = ready()
		}
	}
	if len(r) > 0 {
		chosen = r[0]
		if len(r) > 1 {
			opts := append([]int{}, r...)
			chosen = m.decideLazy("select", func() []int { return opts })
		}
	}
	res := Tuple{MkBV(64, uint64(int64(chosen))), tFalse}
	for i, st := range instr.States {
		if st.Dir == types.RecvOnly {
			var v Value
			if i == chosen {
				rv, ok := m.chanTake(cases[i].c)
				res[1] = MkBool(ok)
				v = rv
			}
			if v == nil {
				v = zero(st.Chan.Type().Underlying().(*types.Chan).Elem())
			}
			res = append(res, v)
		} else if i == chosen {
			k := cases[i]
			if k.c.closed {
				panic(targetPanic{Iface{T: m.runtimeErrorString, V: ConcStr("send on closed channel")}})
			}
			m.tick(m.cur)
			joinVC(&k.c.vc, m.cur.vc)
			k.c.buf = append(k.c.buf, k.v)
		}
	}
	return res
}

func (m *Machine) reportPanic(g *G, p targetPanic) {
	detail := "panic"
	if itf, ok := p.v.(Iface); ok {
		detail = fmt.Sprintf("panic(%v)", itf.T)
		if s, ok := itf.V.(*Str); ok {
			detail += " " + s.String()
		} else if pv, ok := itf.V.(*Value); ok && pv != nil {
			if st, ok := (*pv).(Struct); ok && len(st) > 0 {
				if s, ok := st[0].(*Str); ok {
					detail += " " + s.String()
				}
			}
		}
	}
	if m.lastPanicSite != "" {
		detail += " at" + m.lastPanicSite
	}
	m.violations = append(m.violations, &Violation{Kind: "panic", Label: "panic", Detail: fmt.Sprintf("g%d(%s): %s", g.id, g.name, detail), Choices: append([]int{}, m.forced[:m.pos]...)})
}

func (m *Machine) acq(src []int, why string) {
	if vcDebug && m.cur != nil && m.cur.id != 3 && len(src) > 3 && src[3] > 0 && (len(m.cur.vc) <= 3 || src[3] > m.cur.vc[3]) {
		fmt.Printf("ACQ g%d(%s) gets g3 clock %d via %s (fn %s)\n", m.cur.id, m.cur.name, src[3], why, m.curFrame.fn.Name())
	}
	joinVC(&m.cur.vc, src)
}
