package main

import (
	"fmt"
	"go/constant"
	"go/types"
	"strings"

	"golang.org/x/tools/go/ssa"
)

type Value = any

// Scalars (bool, intN, uintN, float64) are *Term.
// Pointers are *Value. Slices are []Value. nil func is untyped nil.

type Struct []Value
type Array []Value
type Tuple []Value

type Iface struct {
	T types.Type // dynamic type; nil for nil interface
	V Value
}

type Closure struct {
	Fn  *ssa.Function
	Env []Value
}

// Native is an opaque object provided by an engine model.
type Native struct {
	Kind string
	Data any
}

type mapEntry struct {
	key, val Value
	deleted  bool
}

type MapV struct {
	entries []*mapEntry
	id      int
}

func (m *MapV) live() []*mapEntry {
	var out []*mapEntry
	for _, e := range m.entries {
		if !e.deleted {
			out = append(out, e)
		}
	}
	return out
}

// ---- strings ----

type Str struct {
	conc bool
	s    string
	n    *Term   // BV64 length
	b    []*Term // BV8 bytes, len(b) = capacity
}

func ConcStr(s string) *Str { return &Str{conc: true, s: s} }

var emptyStr = ConcStr("")

func (s *Str) capacity() int {
	if s.conc {
		return len(s.s)
	}
	return len(s.b)
}

func (s *Str) Len() *Term {
	if s.conc {
		return MkBV(64, uint64(len(s.s)))
	}
	return s.n
}

func (s *Str) byteAt(k int) *Term {
	if s.conc {
		if k < len(s.s) {
			return MkBV(8, uint64(s.s[k]))
		}
		return MkBV(8, 0)
	}
	if k < len(s.b) {
		return s.b[k]
	}
	return MkBV(8, 0)
}

// normalize turns a symbolic string whose length and bytes are all constants into a concrete one.
func (s *Str) normalize() *Str {
	if s.conc {
		return s
	}
	if !s.n.IsConst() {
		return s
	}
	n := int(s.n.C)
	if n > len(s.b) {
		return s
	}
	buf := make([]byte, n)
	for i := 0; i < n; i++ {
		if !s.b[i].IsConst() {
			// length is concrete: trim capacity
			return &Str{n: s.n, b: s.b[:n]}
		}
		buf[i] = byte(s.b[i].C)
	}
	return ConcStr(string(buf))
}

func StrEq(a, b *Str) *Term {
	if a.conc && b.conc {
		return MkBool(a.s == b.s)
	}
	if a == b {
		return tTrue
	}
	if a.conc {
		a, b = b, a
	}
	// a symbolic
	if b.conc {
		if len(b.s) > len(a.b) {
			return tFalse
		}
		cs := []*Term{Eq(a.n, MkBV(64, uint64(len(b.s))))}
		for i := 0; i < len(b.s); i++ {
			cs = append(cs, Eq(a.b[i], MkBV(8, uint64(b.s[i]))))
		}
		return And(cs...)
	}
	cs := []*Term{Eq(a.n, b.n)}
	mc := len(a.b)
	if len(b.b) < mc {
		mc = len(b.b)
	}
	for i := 0; i < mc; i++ {
		cs = append(cs, Or(BvCmp("bvule", a.n, MkBV(64, uint64(i))), Eq(a.b[i], b.b[i])))
	}
	if len(a.b) != len(b.b) {
		cs = append(cs, BvCmp("bvule", a.n, MkBV(64, uint64(mc))))
	}
	return And(cs...)
}

// StrLess: lexicographic a < b
func StrLess(a, b *Str) *Term {
	if a.conc && b.conc {
		return MkBool(a.s < b.s)
	}
	mc := a.capacity()
	if b.capacity() > mc {
		mc = b.capacity()
	}
	res := tFalse // beyond all bytes: equal => not less
	for k := mc - 1; k >= 0; k-- {
		kk := MkBV(64, uint64(k))
		aEnd := BvCmp("bvule", a.Len(), kk)
		bEnd := BvCmp("bvule", b.Len(), kk)
		ak, bk := a.byteAt(k), b.byteAt(k)
		res = Ite(bEnd, tFalse, Ite(aEnd, tTrue, Ite(BvCmp("bvult", ak, bk), tTrue, Ite(BvCmp("bvult", bk, ak), tFalse, res))))
	}
	return res
}

func StrConcat(a, b *Str) *Str {
	if a.conc && b.conc {
		return ConcStr(a.s + b.s)
	}
	if a.conc && a.s == "" {
		return b
	}
	if b.conc && b.s == "" {
		return a
	}
	capA, capB := a.capacity(), b.capacity()
	n := BvBin("bvadd", a.Len(), b.Len())
	bs := make([]*Term, capA+capB)
	if a.conc {
		for k := 0; k < capA; k++ {
			bs[k] = a.byteAt(k)
		}
		for k := 0; k < capB; k++ {
			bs[capA+k] = b.byteAt(k)
		}
		return (&Str{n: n, b: bs}).normalize()
	}
	nA := a.n
	for k := 0; k < capA+capB; k++ {
		var t *Term = MkBV(8, 0)
		top := k
		if top > capA {
			top = capA
		}
		for v := 0; v <= top; v++ {
			if k-v < capB {
				t = Ite(Eq(nA, MkBV(64, uint64(v))), b.byteAt(k-v), t)
			}
		}
		if k < capA {
			t = Ite(BvCmp("bvult", MkBV(64, uint64(k)), nA), a.b[k], t)
		}
		bs[k] = t
	}
	return (&Str{n: n, b: bs}).normalize()
}

// StrSlice returns s[lo:hi]; bounds must already have been checked.
func StrSlice(s *Str, lo, hi *Term) *Str {
	if s.conc && lo.IsConst() && hi.IsConst() {
		return ConcStr(s.s[lo.C:hi.C])
	}
	c := s.capacity()
	n := BvBin("bvsub", hi, lo)
	if lo.IsConst() {
		l := int(lo.C)
		if l > c {
			l = c
		}
		bs := make([]*Term, c-l)
		for k := range bs {
			bs[k] = s.byteAt(l + k)
		}
		return (&Str{n: n, b: bs}).normalize()
	}
	bs := make([]*Term, c)
	for k := 0; k < c; k++ {
		var t *Term = MkBV(8, 0)
		for v := c - 1 - k; v >= 0; v-- {
			t = Ite(Eq(lo, MkBV(64, uint64(v))), s.byteAt(v+k), t)
		}
		bs[k] = t
	}
	return (&Str{n: n, b: bs}).normalize()
}

// StrIndexSym returns s[i] for symbolic in-range i.
func StrIndexSym(s *Str, i *Term) *Term {
	if i.IsConst() {
		return s.byteAt(int(i.C))
	}
	var t *Term = MkBV(8, 0)
	for v := s.capacity() - 1; v >= 0; v-- {
		t = Ite(Eq(i, MkBV(64, uint64(v))), s.byteAt(v), t)
	}
	return t
}

// hasPrefixAt: s[off:off+len(p)] == p where off is a constant; returns Bool term (includes length check)
func StrHasPrefix(s, p *Str) *Term {
	if s.conc && p.conc {
		return MkBool(strings.HasPrefix(s.s, p.s))
	}
	cs := []*Term{BvCmp("bvule", p.Len(), s.Len())}
	pc := p.capacity()
	for k := 0; k < pc; k++ {
		inP := BvCmp("bvult", MkBV(64, uint64(k)), p.Len())
		if p.conc {
			inP = tTrue
		}
		cs = append(cs, Or(Not(inP), Eq(s.byteAt(k), p.byteAt(k))))
	}
	if pc > s.capacity() {
		cs = append(cs, BvCmp("bvule", p.Len(), MkBV(64, uint64(s.capacity()))))
	}
	return And(cs...)
}

func StrHasSuffix(s, p *Str) *Term {
	if s.conc && p.conc {
		return MkBool(strings.HasSuffix(s.s, p.s))
	}
	// suffix: for each possible start offset v = len(s)-len(p)
	off := BvBin("bvsub", s.Len(), p.Len())
	sfx := StrSlice(s, off, s.Len()) // bytes meaningful only if len(p) <= len(s)
	return And(BvCmp("bvule", p.Len(), s.Len()), StrEq(sfx, p))
}

// StrIndexByteFrom: smallest i>=0 with s[i]==c, else -1 (as BV64)
func StrIndexByte(s *Str, c *Term) *Term {
	if s.conc && c.IsConst() {
		return MkBV(64, uint64(int64(strings.IndexByte(s.s, byte(c.C)))))
	}
	res := MkBV(64, ^uint64(0))
	for k := s.capacity() - 1; k >= 0; k-- {
		in := BvCmp("bvult", MkBV(64, uint64(k)), s.Len())
		res = Ite(And(in, Eq(s.byteAt(k), c)), MkBV(64, uint64(k)), res)
	}
	return res
}

func StrLastIndexByte(s *Str, c *Term) *Term {
	res := MkBV(64, ^uint64(0))
	for k := 0; k < s.capacity(); k++ {
		in := BvCmp("bvult", MkBV(64, uint64(k)), s.Len())
		res = Ite(And(in, Eq(s.byteAt(k), c)), MkBV(64, uint64(k)), res)
	}
	return res
}

// StrIndex: first occurrence of concrete-or-symbolic substring; sub must have small capacity.
func StrIndex(s, sub *Str) *Term {
	if s.conc && sub.conc {
		return MkBV(64, uint64(int64(strings.Index(s.s, sub.s))))
	}
	res := MkBV(64, ^uint64(0))
	for k := s.capacity(); k >= 0; k-- {
		kk := MkBV(64, uint64(k))
		// match at k: k+len(sub) <= len(s) and bytes equal
		cs := []*Term{BvCmp("bvule", BvBin("bvadd", kk, sub.Len()), s.Len())}
		for j := 0; j < sub.capacity(); j++ {
			inSub := tTrue
			if !sub.conc {
				inSub = BvCmp("bvult", MkBV(64, uint64(j)), sub.Len())
			}
			cs = append(cs, Or(Not(inSub), Eq(s.byteAt(k+j), sub.byteAt(j))))
		}
		res = Ite(And(cs...), kk, res)
	}
	return res
}

func (s *Str) String() string {
	if s.conc {
		return fmt.Sprintf("%q", s.s)
	}
	return fmt.Sprintf("symstr(cap=%d)", len(s.b))
}

// ---- type helpers ----

func intInfo(t types.Type) (w int, signed bool, ok bool) {
	b, isb := t.Underlying().(*types.Basic)
	if !isb {
		return 0, false, false
	}
	switch b.Kind() {
	case types.Int, types.Int64, types.UntypedInt:
		return 64, true, true
	case types.Int8:
		return 8, true, true
	case types.Int16:
		return 16, true, true
	case types.Int32, types.UntypedRune:
		return 32, true, true
	case types.Uint, types.Uint64, types.Uintptr:
		return 64, false, true
	case types.Uint8:
		return 8, false, true
	case types.Uint16:
		return 16, false, true
	case types.Uint32:
		return 32, false, true
	}
	return 0, false, false
}

func isFloat(t types.Type) bool {
	b, ok := t.Underlying().(*types.Basic)
	return ok && (b.Kind() == types.Float64 || b.Kind() == types.Float32 || b.Kind() == types.UntypedFloat)
}

func isString(t types.Type) bool {
	b, ok := t.Underlying().(*types.Basic)
	return ok && b.Info()&types.IsString != 0
}

func isBool(t types.Type) bool {
	b, ok := t.Underlying().(*types.Basic)
	return ok && b.Info()&types.IsBoolean != 0
}

func zero(t types.Type) Value {
	switch u := t.Underlying().(type) {
	case *types.Basic:
		if u.Kind() == types.UnsafePointer {
			return (*Value)(nil)
		}
		if u.Kind() == types.UntypedNil {
			return nil
		}
		if isBool(u) {
			return tFalse
		}
		if isString(u) {
			return emptyStr
		}
		if isFloat(u) {
			return MkFP(0)
		}
		if w, _, ok := intInfo(u); ok {
			return MkBV(w, 0)
		}
		panic(unsupported{"zero of basic " + u.String()})
	case *types.Pointer:
		return (*Value)(nil)
	case *types.Slice:
		return []Value(nil)
	case *types.Map:
		return (*MapV)(nil)
	case *types.Chan:
		return (*ChanV)(nil)
	case *types.Signature:
		return nil
	case *types.Interface:
		return Iface{}
	case *types.Struct:
		s := make(Struct, u.NumFields())
		for i := range s {
			s[i] = zero(u.Field(i).Type())
		}
		return s
	case *types.Array:
		a := make(Array, u.Len())
		if u.Len() > 0 {
			z := zero(u.Elem())
			for i := range a {
				a[i] = copyVal(z)
			}
		}
		return a
	case *types.Tuple:
		tp := make(Tuple, u.Len())
		for i := range tp {
			tp[i] = zero(u.At(i).Type())
		}
		return tp
	}
	panic(unsupported{"zero of " + t.String()})
}

func copyVal(v Value) Value {
	switch v := v.(type) {
	case Struct:
		c := make(Struct, len(v))
		for i := range v {
			c[i] = copyVal(v[i])
		}
		return c
	case Array:
		c := make(Array, len(v))
		for i := range v {
			c[i] = copyVal(v[i])
		}
		return c
	}
	return v
}

func constValue(c *ssa.Const) Value {
	if c.Value == nil {
		return zero(c.Type())
	}
	t := c.Type().Underlying()
	if b, ok := t.(*types.Basic); ok {
		switch {
		case isBool(b):
			return MkBool(constant.BoolVal(c.Value))
		case isString(b):
			if c.Value.Kind() == constant.String {
				return ConcStr(constant.StringVal(c.Value))
			}
			return ConcStr(string(rune(c.Int64())))
		case isFloat(b):
			return MkFP(c.Float64())
		default:
			if w, signed, ok := intInfo(b); ok {
				if signed {
					return MkBV(w, uint64(c.Int64()))
				}
				return MkBV(w, c.Uint64())
			}
		}
	}
	if _, ok := t.(*types.Interface); ok {
		return Iface{}
	}
	panic(unsupported{"const of type " + c.Type().String()})
}

type unsupported struct{ msg string }

func (u unsupported) Error() string { return "unsupported: " + u.msg }

func describe(v Value) string {
	switch v := v.(type) {
	case *Term:
		if v.IsConst() {
			switch v.S.K {
			case SBool:
				return fmt.Sprint(v.C == 1)
			case SBV:
				return fmt.Sprint(v.SVal())
			default:
				return fmt.Sprint(v.FVal())
			}
		}
		return "sym"
	case *Str:
		return v.String()
	case Iface:
		if v.T == nil {
			return "nil-iface"
		}
		return "iface(" + v.T.String() + ")"
	case nil:
		return "nil"
	}
	return fmt.Sprintf("%T", v)
}
