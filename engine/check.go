package main

import (
	"bufio"
	"bytes"
	"encoding/json"
	"flag"
	"fmt"
	"os"
	"os/exec"
	"path/filepath"
	"sort"
	"strings"
	"time"
)

type HarnessSpec struct {
	Name     string         `json:"name"`
	Pkg      string         `json:"pkg"`
	Quick    map[string]int `json:"quick"`
	Thorough map[string]int `json:"thorough"`
	Replay   string         `json:"replay"` // "native" (default) or "engine"
	TimeoutQ int            `json:"timeout_quick"`
	TimeoutT int            `json:"timeout_thorough"`
	Note     string         `json:"note"`
	// ExpectViolation marks a vacuity twin: the harness must report a violation (reachability witness).
	ExpectViolation bool `json:"expect_violation"`
}

type PropertySpec struct {
	ID          string        `json:"id"`
	Harnesses   []HarnessSpec `json:"harnesses"`
	Assumptions []string      `json:"assumptions"`
	Outside     []string      `json:"outside_bounds"`
}

type knownFinding struct {
	Property string
	Key      string
	Text     string
}

func loadKnownFindings(path string) []knownFinding {
	var out []knownFinding
	f, err := os.Open(path)
	if err != nil {
		return nil
	}
	defer f.Close()
	sc := bufio.NewScanner(f)
	for sc.Scan() {
		line := strings.TrimSpace(sc.Text())
		if !strings.HasPrefix(line, "finding:") {
			continue
		}
		rest := strings.TrimSpace(strings.TrimPrefix(line, "finding:"))
		kf := knownFinding{}
		fields := strings.Fields(rest)
		var text []string
		for _, f := range fields {
			switch {
			case strings.HasPrefix(f, "property=") && kf.Property == "":
				kf.Property = strings.TrimPrefix(f, "property=")
			case strings.HasPrefix(f, "key=") && kf.Key == "":
				kf.Key = strings.TrimPrefix(f, "key=")
			default:
				text = append(text, f)
			}
		}
		kf.Text = strings.Join(text, " ")
		out = append(out, kf)
	}
	return out
}

func violationKey(harness string, v *Violation) string {
	lab := strings.ReplaceAll(v.Label, " ", "_")
	return harness + "/" + lab
}

func cmdCheck(args []string) {
	fs := flag.NewFlagSet("check", flag.ExitOnError)
	repo := fs.String("repo", "/repo", "repository")
	vdir := fs.String("verif", "/verif", "verif dir")
	tier := fs.String("tier", "", "quick|thorough")
	workers := fs.Int("workers", 16, "workers")
	only := fs.String("only", "", "run only this harness")
	noReplay := fs.Bool("no-replay", false, "skip native replay")
	fs.BoolVar(&verbose, "v", false, "verbose")
	fs.StringVar(&solverBin, "solver", "z3", "z3|z3-new|cvc5")
	if len(args) < 1 {
		fmt.Println("usage: gosym check <ID> [--tier quick|thorough]")
		os.Exit(2)
	}
	id := args[0]
	fs.Parse(args[1:])
	if *tier == "" {
		*tier = os.Getenv("VERIF_TIER")
	}
	if *tier != "thorough" {
		*tier = "quick"
	}
	seed := 0
	fmt.Sscanf(os.Getenv("VERIF_SEED"), "%d", &seed)
	t0 := time.Now()

	var specs []PropertySpec
	b, err := os.ReadFile(filepath.Join(*vdir, "checks.json"))
	if err != nil {
		fmt.Println("INCONCLUSIVE cannot read checks.json:", err)
		os.Exit(2)
	}
	if err := json.Unmarshal(b, &specs); err != nil {
		fmt.Println("INCONCLUSIVE bad checks.json:", err)
		os.Exit(2)
	}
	var spec *PropertySpec
	for i := range specs {
		if specs[i].ID == id {
			spec = &specs[i]
		}
	}
	if spec == nil {
		fmt.Println("INCONCLUSIVE unknown property", id)
		os.Exit(2)
	}
	known := loadKnownFindings(filepath.Join(*vdir, "known_findings.txt"))

	needed := []string{}
	for _, hs := range spec.Harnesses {
		needed = append(needed, hs.Name)
	}
	P, err := LoadProgramFor(*repo, filepath.Join(*vdir, "harness"), needed)
	if err != nil {
		fmt.Println("INCONCLUSIVE load failed:", err)
		os.Exit(2)
	}
	loadS := time.Since(t0).Seconds()

	var results []*HarnessResult
	inconclusive := []string{}
	violLines := []string{}
	knownLines := map[string]bool{}
	totalViol := 0
	validated := 0
	os.MkdirAll(filepath.Join(*vdir, "replays"), 0755)
	replayN := 0

	for _, hs := range spec.Harnesses {
		if *only != "" && hs.Name != *only {
			continue
		}
		if len(violLines) > 0 && os.Getenv("VERIF_KEEP_GOING") == "" {
			// a reproduced, unlisted violation decides the verdict: the remaining harnesses are not run
			fmt.Printf("harness %-28s skipped (a violation was already reproduced)\n", hs.Name)
			continue
		}
		if *tier != "thorough" && hs.Quick == nil && hs.Thorough != nil {
			continue // configuration registered for the thorough tier only
		}
		params := hs.Quick
		timeout := hs.TimeoutQ
		if *tier == "thorough" {
			params = map[string]int{}
			for k, v := range hs.Quick {
				params[k] = v
			}
			for k, v := range hs.Thorough {
				params[k] = v
			}
			timeout = hs.TimeoutT
		}
		if params == nil {
			params = map[string]int{}
		}
		if timeout == 0 {
			timeout = 900
			if *tier == "thorough" {
				timeout = 1800
			}
		}
		pkgPath := serverPkgPath
		pkgShort := "server"
		if hs.Pkg == "cmd" {
			pkgPath = cmdPkgPath
			pkgShort = "cmd"
		}
		e := &Explorer{P: P, harness: hs.Name, pkgPath: pkgPath, params: params, workers: *workers,
			deadline: time.Now().Add(time.Duration(timeout) * time.Second)}
		res := e.Run()
		results = append(results, res)
		fmt.Printf("harness %-28s exec=%d viol=%d unknown=%d unsupported=%d queries=%d solver=%.1fs wall=%.1fs\n", hs.Name, res.Executions,
			len(res.Violations), len(res.Unknowns), len(res.Unsupported), res.QuerySat+res.QueryUnsat+res.QueryUnknown, res.SolverS, res.WallS)

		if len(res.Unsupported) > 0 {
			inconclusive = append(inconclusive, fmt.Sprintf("%s: unsupported: %s", hs.Name, res.Unsupported[0]))
		}
		if len(res.Unknowns) > 0 || res.QueryUnknown > 0 || res.SolverErrors > 0 {
			inconclusive = append(inconclusive, fmt.Sprintf("%s: %d solver unknown/error answers", hs.Name, res.QueryUnknown+res.SolverErrors))
		}
		if res.Truncated {
			inconclusive = append(inconclusive, fmt.Sprintf("%s: exploration truncated by time limit (%ds)", hs.Name, timeout))
		}
		if hs.ExpectViolation {
			if len(res.Violations) == 0 {
				inconclusive = append(inconclusive, fmt.Sprintf("%s: vacuity twin found no violation (harness does not reach its assertion)", hs.Name))
			}
			continue
		}
		for k, v := range res.Covers {
			if !v {
				inconclusive = append(inconclusive, fmt.Sprintf("%s: cover point unreachable: %s", hs.Name, k))
			}
		}
		if res.Executions-res.PathsDead <= 0 {
			inconclusive = append(inconclusive, fmt.Sprintf("%s: no feasible execution", hs.Name))
		}
		// violations: group by key, replay one representative per key
		byKey := map[string][]*Violation{}
		var keys []string
		for _, v := range res.Violations {
			k := violationKey(hs.Name, v)
			if _, ok := byKey[k]; !ok {
				keys = append(keys, k)
			}
			byKey[k] = append(byKey[k], v)
		}
		sort.Strings(keys)
		for _, k := range keys {
			vs := byKey[k]
			var kf *knownFinding
			for i := range known {
				kk := known[i].Key
				if strings.HasPrefix(kk, "*/") {
					// any harness of this property, same assertion label
					if j := strings.Index(k, "/"); j >= 0 {
						kk = k[:j] + kk[1:]
					}
				}
				if known[i].Property == id && (kk == k || strings.HasPrefix(k, kk+"/")) {
					kf = &known[i]
				}
			}
			// replay
			reproduced := false
			replayPath := ""
			tried := 0
			for _, v := range vs {
				if tried >= 3 {
					break
				}
				tried++
				replayN++
				replayPath = filepath.Join(*vdir, "replays", fmt.Sprintf("%s-%d.json", id, replayN))
				rep := map[string]any{"property": id, "harness": hs.Name, "pkg": pkgShort, "label": v.Label, "kind": v.Kind, "detail": v.Detail,
					"inputs": v.Model, "params": params, "decisions": v.Choices}
				rb, _ := json.MarshalIndent(rep, "", " ")
				os.WriteFile(replayPath, rb, 0644)
				if *noReplay {
					reproduced = true
					break
				}
				mode := hs.Replay
				if mode == "" {
					mode = "native"
				}
				if v.Kind != "assert" && mode == "native" {
					mode = "engine"
				}
				ok, out := false, ""
				if mode == "native" {
					ok, out = nativeReplay(*repo, *vdir, pkgShort, hs.Name, replayPath, v.Label, v.Kind)
				} else {
					ok, out = engineReplay(P, hs, pkgPath, params, v)
				}
				os.WriteFile(strings.TrimSuffix(replayPath, ".json")+".log", []byte(out), 0644)
				if ok {
					reproduced = true
					validated++
					break
				}
			}
			if kf != nil {
				if reproduced {
					knownLines[fmt.Sprintf("KNOWN-FINDING: property=%s %s [%s]", id, kf.Text, kf.Key)] = true
				} else {
					inconclusive = append(inconclusive, fmt.Sprintf("%s: known finding %s reported by the solver but its replay did not reproduce", hs.Name, k))
				}
				continue
			}
			if reproduced {
				totalViol++
				violLines = append(violLines, fmt.Sprintf("VIOLATION property=%s replay=%s", id, replayPath))
				fmt.Printf("  violated: %s (%s) %s\n", k, vs[0].Kind, vs[0].Detail)
			} else {
				inconclusive = append(inconclusive, fmt.Sprintf("%s: counterexample for %q did not reproduce in replay (see %s)", hs.Name, k, replayPath))
			}
		}
		// translator validation on the unchanged paths: solver witnesses of completed paths are run natively through the
		// same harness (real toolchain, real build); the native run must not trip any assertion
		if hs.Replay == "native" && !*noReplay && len(res.Violations) == 0 {
			n, bad := nativeValidateSamples(*repo, *vdir, pkgShort, hs.Name, id, params, res.Samples)
			validated += n
			if bad != "" {
				inconclusive = append(inconclusive, fmt.Sprintf("%s: native run of a solver witness disagrees with the engine: %s", hs.Name, bad))
			}
		}
	}

	writeEvidence(*vdir, id, *tier, seed, spec, results, totalViol, validated, time.Since(t0).Seconds(), loadS, inconclusive)

	var kl []string
	for l := range knownLines {
		kl = append(kl, l)
	}
	sort.Strings(kl)
	for _, l := range kl {
		fmt.Println(l)
	}
	if len(violLines) > 0 {
		for _, l := range violLines {
			fmt.Println(l)
		}
		os.Exit(1)
	}
	if len(inconclusive) > 0 {
		for _, l := range inconclusive {
			fmt.Println("INCONCLUSIVE", l)
		}
		os.Exit(2)
	}
	fmt.Printf("OK property=%s tier=%s harnesses=%d wall=%.1fs\n", id, *tier, len(results), time.Since(t0).Seconds())
}

func writeEvidence(vdir, id, tier string, seed int, spec *PropertySpec, results []*HarnessResult, viol, validated int, wall, loadS float64, inconclusive []string) {
	states, trans := 0, int64(0)
	qs, qu, qk := 0, 0, 0
	solverS := 0.0
	var samples []any
	harn := []any{}
	funcsRepo := map[string]bool{}
	funcsStd := map[string]bool{}
	stubs := map[string]int{}
	covers := map[string]bool{}
	horizon := 0
	for _, r := range results {
		states += r.Executions - r.PathsDead
		trans += r.Steps
		qs += r.QuerySat
		qu += r.QueryUnsat
		qk += r.QueryUnknown
		solverS += r.SolverS
		horizon += r.Horizon
		for _, s := range r.Samples {
			if len(samples) < 6 {
				samples = append(samples, map[string]any{"harness": r.Harness, "path": s})
			}
		}
		for _, f := range r.FuncsRepo {
			funcsRepo[f] = true
		}
		for _, f := range r.FuncsStd {
			funcsStd[f] = true
		}
		for k, v := range r.Stubs {
			if !strings.Contains(k, "server.v") && !strings.Contains(k, "cmd.v") {
				stubs[k] += v
			}
		}
		for k, v := range r.Covers {
			covers[r.Harness+": "+k] = v
		}
		harn = append(harn, map[string]any{"harness": r.Harness, "bounds": r.Params, "leaf_executions": r.Executions, "infeasible_pruned": r.PathsDead,
			"assertions_discharged": r.Asserts, "queries": map[string]int{"sat": r.QuerySat, "unsat": r.QueryUnsat, "unknown": r.QueryUnknown},
			"solver_s": r.SolverS, "wall_s": r.WallS, "violations": len(r.Violations), "end_reasons": r.EndReasons, "horizon_reached": r.Horizon, "truncated": r.Truncated})
	}
	if len(samples) == 0 {
		samples = append(samples, map[string]any{"note": "no completed path sampled"})
	}
	keys := func(m map[string]bool) []string {
		var out []string
		for k := range m {
			out = append(out, k)
		}
		sort.Strings(out)
		return out
	}
	if states < 1 {
		states = 1
	}
	if trans < 1 {
		trans = 1
	}
	ev := map[string]any{
		"property_id": id,
		"tier":        tier,
		"seed":        seed,
		"level":       "model_checking",
		"wall_s":      wall,
		"violations":  viol,
		"assumptions": append(append([]string{}, spec.Assumptions...), "stubs listed under coverage.stubs replace their callees with the stated contracts", "solver answers of z3 4.8.12 are trusted (diffed against z3 5.1.0 / cvc5 in selftest)"),
		"coverage": map[string]any{
			"states":                        states,
			"transitions":                   trans,
			"traces_validated_against_impl": validated,
			"samples":                       samples,
			"technique":                     "symbolic execution of go/ssa of the working tree; each leaf execution is a class of runs whose data values are decided by the SMT solver",
			"harnesses":                     harn,
			"functions_encoded_repo":        keys(funcsRepo),
			"functions_encoded_std":         keys(funcsStd),
			"stubs":                         stubs,
			"cover_points":                  covers,
			"queries":                       map[string]int{"sat": qs, "unsat": qu, "unknown": qk},
			"solver_s":                      solverS,
			"load_and_encode_s":             loadS,
			"outside_bounds":                spec.Outside,
			"inconclusive":                  inconclusive,
			"horizon_reached":               horizon,
			"exhaustive":                    len(inconclusive) == 0,
		},
	}
	b, _ := json.MarshalIndent(ev, "", " ")
	os.MkdirAll(filepath.Join(vdir, "evidence"), 0755)
	os.WriteFile(filepath.Join(vdir, "evidence", id+".json"), b, 0644)
}

// nativeReplay runs the same harness natively (real toolchain, real build) with the counterexample's inputs.
func nativeReplay(repo, vdir, pkg, harness, replayPath, label, kind string) (bool, string) {
	tmp, err := os.MkdirTemp("", "verif-replay-")
	if err != nil {
		return false, err.Error()
	}
	defer os.RemoveAll(tmp)
	overlay := map[string]string{}
	files, _ := filepath.Glob(filepath.Join(vdir, "harness", pkg, "*.go"))
	for _, f := range files {
		src, _ := os.ReadFile(f)
		if strings.Contains(string(src), "//verif:engine-only") {
			continue
		}
		overlay[filepath.Join(repo, "internal", pkg, "zz_verif_"+filepath.Base(f))] = f
	}
	test := fmt.Sprintf(`package %s

import (
	"fmt"
	"testing"
)

func TestVerifReplay(t *testing.T) {
	defer func() {
		if r := recover(); r != nil {
			if _, ok := r.(vAssumeFailed); ok {
				fmt.Println("VERIF-ASSUME-FAILED")
				return
			}
			fmt.Println("VERIF-PANIC", r)
		}
	}()
	%s()
	fmt.Println("VERIF-REPLAY-DONE failures:", len(vFailures))
}
`, pkg, harness)
	tf := filepath.Join(tmp, "replay_test.go")
	os.WriteFile(tf, []byte(test), 0644)
	overlay[filepath.Join(repo, "internal", pkg, "zz_verif_replay_test.go")] = tf
	ob, _ := json.Marshal(map[string]any{"Replace": overlay})
	of := filepath.Join(tmp, "overlay.json")
	os.WriteFile(of, ob, 0644)
	var out bytes.Buffer
	ok := false
	for attempt := 0; attempt < 3 && !ok; attempt++ {
		cmd := exec.Command("go", "test", "-v", "-vet=off", "-count=1", "-tags", "verif", "-run", "^TestVerifReplay$", "-overlay", of, "./internal/"+pkg)
		cmd.Dir = repo
		cmd.Env = append(os.Environ(), "VERIF_REPLAY="+replayPath)
		cmd.Stdout = &out
		cmd.Stderr = &out
		done := make(chan error, 1)
		cmd.Start()
		go func() { done <- cmd.Wait() }()
		select {
		case <-done:
		case <-time.After(180 * time.Second):
			cmd.Process.Kill()
			out.WriteString("\nTIMEOUT\n")
		}
		s := out.String()
		if kind == "panic" {
			ok = strings.Contains(s, "VERIF-PANIC")
		} else {
			ok = strings.Contains(s, "VERIF-ASSERT-FAILED "+label)
		}
	}
	return ok, out.String()
}

// engineReplay re-executes the harness in the engine with every symbolic input pinned to the model's value.
func engineReplay(P *Program, hs HarnessSpec, pkgPath string, params map[string]int, v *Violation) (bool, string) {
	e := &Explorer{P: P, harness: hs.Name, pkgPath: pkgPath, params: params, workers: 1, deadline: time.Now().Add(120 * time.Second), maxExec: 1}
	e.pinned = v.Model
	e.initial = v.Choices
	res := e.Run()
	for _, rv := range res.Violations {
		if rv.Label == v.Label && rv.Kind == v.Kind {
			return true, fmt.Sprintf("engine replay with pinned inputs reproduced %s (%s)", v.Label, v.Kind)
		}
	}
	b, _ := json.Marshal(res.EndReasons)
	return false, "engine replay with pinned inputs did not reproduce; end reasons " + string(b) + " unsupported " + strings.Join(res.Unsupported, ";")
}

// nativeValidateSamples builds the package's test binary once (harness overlaid) and runs it for each sample witness.
func nativeValidateSamples(repo, vdir, pkg, harness, id string, params map[string]int, samples []map[string]any) (int, string) {
	var wit []map[string]any
	for _, s := range samples {
		if w, ok := s["witness_inputs"].(map[string]any); ok {
			wit = append(wit, w)
		}
	}
	if len(wit) == 0 {
		return 0, ""
	}
	tmp, err := os.MkdirTemp("", "verif-validate-")
	if err != nil {
		return 0, ""
	}
	defer os.RemoveAll(tmp)
	overlay := map[string]string{}
	files, _ := filepath.Glob(filepath.Join(vdir, "harness", pkg, "*.go"))
	for _, f := range files {
		src, _ := os.ReadFile(f)
		if strings.Contains(string(src), "//verif:engine-only") {
			continue
		}
		overlay[filepath.Join(repo, "internal", pkg, "zz_verif_"+filepath.Base(f))] = f
	}
	test := fmt.Sprintf(`package %s

import (
	"fmt"
	"testing"
)

func TestVerifReplay(t *testing.T) {
	defer func() {
		if r := recover(); r != nil {
			if _, ok := r.(vAssumeFailed); ok {
				fmt.Println("VERIF-ASSUME-FAILED")
				return
			}
			fmt.Println("VERIF-PANIC", r)
		}
	}()
	%s()
	fmt.Println("VERIF-REPLAY-DONE failures:", len(vFailures))
}
`, pkg, harness)
	tf := filepath.Join(tmp, "replay_test.go")
	os.WriteFile(tf, []byte(test), 0644)
	overlay[filepath.Join(repo, "internal", pkg, "zz_verif_replay_test.go")] = tf
	ob, _ := json.Marshal(map[string]any{"Replace": overlay})
	of := filepath.Join(tmp, "overlay.json")
	os.WriteFile(of, ob, 0644)
	bin := filepath.Join(tmp, "replay.test")
	build := exec.Command("go", "test", "-c", "-vet=off", "-tags", "verif", "-overlay", of, "-o", bin, "./internal/"+pkg)
	build.Dir = repo
	if out, err := build.CombinedOutput(); err != nil {
		return 0, "native build failed: " + string(out)
	}
	ok := 0
	for i, w := range wit {
		rp := filepath.Join(tmp, fmt.Sprintf("w%d.json", i))
		rb, _ := json.Marshal(map[string]any{"inputs": w, "params": params})
		os.WriteFile(rp, rb, 0644)
		cmd := exec.Command(bin, "-test.run", "^TestVerifReplay$", "-test.v")
		cmd.Dir = filepath.Join(repo, "internal", pkg)
		cmd.Env = append(os.Environ(), "VERIF_REPLAY="+rp)
		out, _ := cmd.CombinedOutput()
		so := string(out)
		switch {
		case strings.Contains(so, "VERIF-ASSERT-FAILED"), strings.Contains(so, "VERIF-PANIC"):
			return ok, fmt.Sprintf("witness %d: %s", i, firstLine(so, "VERIF-"))
		case strings.Contains(so, "VERIF-REPLAY-DONE failures: 0"):
			ok++
		}
	}
	return ok, ""
}

func firstLine(s, prefix string) string {
	for _, l := range strings.Split(s, "\n") {
		if strings.HasPrefix(l, prefix) {
			return l
		}
	}
	return ""
}
