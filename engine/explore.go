package main

import (
	"fmt"
	"go/ast"
	"os"
	"path/filepath"
	"sort"
	"strings"
	"sync"
	"sync/atomic"
	"time"

	"golang.org/x/tools/go/packages"
	"golang.org/x/tools/go/ssa"
	"golang.org/x/tools/go/ssa/ssautil"
)

const serverPkgPath = "github.com/basecamp/kamal-proxy/internal/server"
const cmdPkgPath = "github.com/basecamp/kamal-proxy/internal/cmd"

// droppedHarnessFiles names the harness files left out of the last load (see LoadProgramFor).
var droppedHarnessFiles []string

func LoadProgram(repo, harnessDir string) (*Program, error) {
	return LoadProgramFor(repo, harnessDir, nil)
}

// LoadProgramFor loads the repository with every harness file overlaid. When that does not type-check and
// `needed` (the harness functions of the check being run) is given, the per-property harness files (cNN_*.go) in
// which the errors lie are left out — provided none of them defines a needed harness or a stub directive that
// applies to one — and the load is tried once more: a change that removes an identifier only *another* property's
// harness names must not make this check inconclusive.
func LoadProgramFor(repo, harnessDir string, needed []string) (*Program, error) {
	droppedHarnessFiles = nil
	overlay := map[string][]byte{}
	for _, sub := range []string{"server", "cmd"} {
		files, _ := filepath.Glob(filepath.Join(harnessDir, sub, "*.go"))
		for _, f := range files {
			if strings.HasSuffix(f, "_test.go") {
				continue
			}
			src, err := os.ReadFile(f)
			if err != nil {
				return nil, err
			}
			// native-only files are excluded from the symbolic build
			if strings.Contains(string(src), "//verif:native-only") {
				continue
			}
			overlay[filepath.Join(repo, "internal", sub, "zz_verif_"+filepath.Base(f))] = src
		}
	}
	var pkgs []*packages.Package
	for attempt := 0; ; attempt++ {
		cfg := &packages.Config{Mode: packages.LoadAllSyntax, Dir: repo, Tests: false, Overlay: overlay,
			Env: append(os.Environ(), "GOPROXY=off", "GOTOOLCHAIN=local", "CGO_ENABLED=0")}
		var err error
		pkgs, err = packages.Load(cfg, "./internal/server", "./internal/cmd")
		if err != nil {
			return nil, err
		}
		nerr := 0
		bad := map[string]bool{}
		other := false
		packages.Visit(pkgs, nil, func(p *packages.Package) {
			for _, e := range p.Errors {
				fmt.Fprintln(os.Stderr, "LOAD-ERROR:", e)
				nerr++
				file := e.Pos
				if i := strings.Index(file, ".go:"); i >= 0 {
					file = file[:i+3]
				}
				if _, ok := overlay[file]; ok && perPropertyHarnessFile(file) {
					bad[file] = true
				} else {
					other = true
				}
			}
		})
		if nerr == 0 {
			break
		}
		fail := fmt.Errorf("%d load errors (the repository or a harness does not compile)", nerr)
		if attempt > 0 || needed == nil || other || len(bad) == 0 {
			return nil, fail
		}
		for file := range bad {
			if harnessFileNeeded(string(overlay[file]), needed) {
				return nil, fail
			}
		}
		for file := range bad {
			delete(overlay, file)
			droppedHarnessFiles = append(droppedHarnessFiles, strings.TrimPrefix(filepath.Base(file), "zz_verif_"))
		}
		sort.Strings(droppedHarnessFiles)
		fmt.Fprintln(os.Stderr, "LOAD: retrying without harness files of other properties that do not compile:", droppedHarnessFiles)
	}
	prog, _ := ssautil.AllPackages(pkgs, ssa.InstantiateGenerics)
	prog.Build()
	P := &Program{prog: prog, pkgs: map[string]*ssa.Package{}, stubs: map[string][]stubDecl{}, atomicPkgs: map[string]bool{}}
	for _, p := range prog.AllPackages() {
		P.pkgs[p.Pkg.Path()] = p
	}
	rt := P.pkgs["runtime"]
	if rt == nil {
		return nil, fmt.Errorf("runtime package not loaded")
	}
	P.runtimeErrorString = rt.Type("errorString").Object().Type()
	for _, ap := range []string{"context", "net/http", "net/url", "net/textproto", "bytes", "io", "strings", "strconv", "errors", "fmt",
		"net", "hash/fnv", "slices", "sort", "time", "sync", "sync/atomic", "net/http/httputil", "os", "encoding/json", "path", "maps", "iter", "cmp", "unicode/utf8", "math/bits"} {
		P.atomicPkgs[ap] = true
	}
	// stub directives: //verif:stub <callee> [harness=A,B]
	for _, p := range pkgs {
		sp := P.pkgs[p.PkgPath]
		for _, f := range p.Syntax {
			for _, d := range f.Decls {
				fd, ok := d.(*ast.FuncDecl)
				if !ok || fd.Doc == nil || fd.Recv != nil {
					continue
				}
				for _, c := range fd.Doc.List {
					txt := strings.TrimSpace(strings.TrimPrefix(c.Text, "//"))
					if !strings.HasPrefix(txt, "verif:stub ") {
						continue
					}
					rest := strings.TrimSpace(strings.TrimPrefix(txt, "verif:stub "))
					calleeName := rest
					opts := ""
					if i := strings.Index(rest, " harness="); i >= 0 {
						calleeName, opts = strings.TrimSpace(rest[:i]), strings.TrimSpace(rest[i:])
					}
					fields := []string{calleeName}
					if opts != "" {
						fields = append(fields, opts)
					}
					decl := stubDecl{fn: sp.Func(fd.Name.Name)}
					if decl.fn == nil {
						return nil, fmt.Errorf("stub function %s not found", fd.Name.Name)
					}
					for _, opt := range fields[1:] {
						if strings.HasPrefix(opt, "harness=") {
							decl.harnesses = map[string]bool{}
							for _, h := range strings.Split(strings.TrimPrefix(opt, "harness="), ",") {
								decl.harnesses[h] = true
							}
						}
					}
					key := strings.ReplaceAll(fields[0], ",", "")
					P.stubs[key] = append(P.stubs[key], decl)
				}
			}
		}
	}
	return P, nil
}

// perPropertyHarnessFile: zz_verif_cNN_*.go (support, stub and model files are never dropped).
func perPropertyHarnessFile(path string) bool {
	b := strings.TrimPrefix(filepath.Base(path), "zz_verif_")
	return len(b) > 4 && b[0] == 'c' && b[1] >= '0' && b[1] <= '9' && b[2] >= '0' && b[2] <= '9' && b[3] == '_'
}

// harnessFileNeeded: the file defines one of the needed harness functions, or a stub directive that applies to one.
func harnessFileNeeded(src string, needed []string) bool {
	for _, line := range strings.Split(src, "\n") {
		t := strings.TrimSpace(line)
		for _, h := range needed {
			if strings.HasPrefix(t, "func "+h+"(") {
				return true
			}
		}
		if strings.HasPrefix(t, "//verif:stub ") {
			i := strings.Index(t, " harness=")
			if i < 0 {
				return true // applies to every harness
			}
			for _, h := range strings.Split(strings.TrimSpace(t[i+len(" harness="):]), ",") {
				for _, n := range needed {
					if h == n {
						return true
					}
				}
			}
		}
	}
	return false
}

type HarnessResult struct {
	Harness      string            `json:"harness"`
	Executions   int               `json:"executions"`
	PathsDead    int               `json:"paths_dead"`
	Steps        int64             `json:"ssa_steps"`
	Asserts      int64             `json:"asserts_checked"`
	Violations   []*Violation      `json:"violations"`
	Covers       map[string]bool   `json:"covers"`
	Unknowns     []string          `json:"unknowns"`
	Unsupported  []string          `json:"unsupported"`
	Horizon      int               `json:"horizon_reached"`
	QuerySat     int               `json:"queries_sat"`
	QueryUnsat   int               `json:"queries_unsat"`
	QueryUnknown int               `json:"queries_unknown"`
	SolverErrors int               `json:"solver_errors"`
	SolverS      float64           `json:"solver_s"`
	WallS        float64           `json:"wall_s"`
	FuncsRepo    []string          `json:"functions_repo"`
	FuncsStd     []string          `json:"functions_std"`
	Stubs        map[string]int    `json:"stubs"`
	Samples      []map[string]any  `json:"samples"`
	Races        []*raceRec        `json:"races"`
	Params       map[string]int    `json:"params"`
	Truncated    bool              `json:"truncated"`
	EndReasons   map[string]int    `json:"end_reasons"`
	Notes        map[string]string `json:"notes,omitempty"`
	Forks        map[string]int    `json:"forks_by_kind"`
}

type workItem struct {
	prefix []int
}

type Explorer struct {
	P         *Program
	harness   string
	pkgPath   string
	params    map[string]int
	workers   int
	deadline  time.Time
	maxExec   int64
	queue     chan workItem
	pending   int64 // items queued or in progress
	idle      int32
	mu        sync.Mutex
	res       *HarnessResult
	funcs     map[*ssa.Function]bool
	execCount int64
	stopped   int32
	trace     bool
	samplesN  int
	pinned    map[string]any
	initial   []int
	violSeen  map[string]int
	violTotal int
}

func (e *Explorer) Run() *HarnessResult {
	t0 := time.Now()
	e.res = &HarnessResult{Harness: e.harness, Covers: map[string]bool{}, Stubs: map[string]int{}, Params: e.params, EndReasons: map[string]int{}}
	e.funcs = map[*ssa.Function]bool{}
	pkg := e.P.pkgs[e.pkgPath]
	fn := pkg.Func(e.harness)
	if fn == nil {
		e.res.Unsupported = append(e.res.Unsupported, "harness function not found: "+e.harness)
		return e.res
	}
	e.queue = make(chan workItem, 1<<16)
	e.pending = 1
	e.queue <- workItem{prefix: e.initial}
	var wg sync.WaitGroup
	done := make(chan struct{})
	for i := 0; i < e.workers; i++ {
		wg.Add(1)
		go func(id int) {
			defer wg.Done()
			e.worker(id, fn, done)
		}(i)
	}
	wg.Wait()
	e.res.WallS = time.Since(t0).Seconds()
	for f := range e.funcs {
		name := f.String()
		if strings.Contains(name, "kamal-proxy") {
			if !strings.Contains(name, ".Harness") && !strings.Contains(name, ".v") && !strings.Contains(name, "stub") {
				e.res.FuncsRepo = append(e.res.FuncsRepo, name)
			}
		} else {
			e.res.FuncsStd = append(e.res.FuncsStd, name)
		}
	}
	sort.Strings(e.res.FuncsRepo)
	sort.Strings(e.res.FuncsStd)
	return e.res
}

func (e *Explorer) worker(id int, fn *ssa.Function, done chan struct{}) {
	solver := NewSolver(60000)
	defer solver.Close()
	covers := map[string]bool{}
	for {
		var item workItem
		select {
		case item = <-e.queue:
		default:
			if atomic.LoadInt64(&e.pending) == 0 {
				return
			}
			atomic.AddInt32(&e.idle, 1)
			select {
			case item = <-e.queue:
				atomic.AddInt32(&e.idle, -1)
			case <-time.After(20 * time.Millisecond):
				atomic.AddInt32(&e.idle, -1)
				continue
			}
		}
		e.exploreSubtree(id, fn, solver, item, covers)
		atomic.AddInt64(&e.pending, -1)
	}
}

func (e *Explorer) exploreSubtree(id int, fn *ssa.Function, solver *Solver, item workItem, covers map[string]bool) {
	prefix := item.prefix
	var trail []trailRec
	forced := append([]int{}, prefix...)
	keep := 0 // number of leading decisions shared with the previous path of this worker
	for {
		if atomic.LoadInt32(&e.stopped) != 0 || time.Now().After(e.deadline) || (e.maxExec > 0 && atomic.LoadInt64(&e.execCount) >= e.maxExec) {
			e.mu.Lock()
			e.res.Truncated = true
			e.mu.Unlock()
			return
		}
		m := e.newMachine(solver, covers)
		m.forced = forced
		m.trail = trail
		m.base = len(prefix)
		m.keep = keep
		e.runOne(m, fn)
		trail = m.trail
		forced = m.forced
		atomic.AddInt64(&e.execCount, 1)
		e.merge(m)

		// donate alternatives to idle workers: from the shallowest open decision
		if atomic.LoadInt32(&e.idle) > 0 {
			for i := range trail {
				t := &trail[i]
				if t.idx+1 < len(t.opts) {
					for k := t.idx + 1; k < len(t.opts); k++ {
						np := append(append([]int{}, forced[:len(prefix)+i]...), t.opts[k])
						atomic.AddInt64(&e.pending, 1)
						select {
						case e.queue <- workItem{prefix: np}:
						default:
							atomic.AddInt64(&e.pending, -1)
							goto nodonate
						}
					}
					t.opts = t.opts[:t.idx+1]
					break
				}
			}
		}
	nodonate:
		// backtrack
		for len(trail) > 0 {
			last := &trail[len(trail)-1]
			if last.idx+1 < len(last.opts) {
				last.idx++
				break
			}
			trail = trail[:len(trail)-1]
		}
		if len(trail) == 0 {
			return
		}
		forced = append([]int{}, prefix...)
		for _, t := range trail {
			forced = append(forced, t.opts[t.idx])
		}
		keep = len(forced) - 1
	}
}

var notesDebug = os.Getenv("GOSYM_NOTES") != ""

func (e *Explorer) newMachine(solver *Solver, covers map[string]bool) *Machine {
	m := &Machine{Program: e.P, solver: solver}
	m.globals = map[*ssa.Global]*Value{}
	m.initDone = map[*ssa.Package]bool{}
	m.maxSteps = 20_000_000
	if v, ok := e.params["maxsteps"]; ok {
		m.maxSteps = v
	}
	m.maxUnwind = 400
	if v, ok := e.params["unwind"]; ok {
		m.maxUnwind = v
	}
	m.harness = e.harness
	m.covers = covers
	m.funcsSeen = map[*ssa.Function]bool{}
	m.stubsSeen = map[string]int{}
	m.trace = e.trace
	m.params = e.params
	m.pinned = e.pinned
	m.kindStats = map[string]int{}
	m.resetSched()
	m.tickers = map[*Value]*Timer{}
	m.builders = map[*Value]*Str{}
	m.atomicVC = map[*Value][]int{}
	m.raceSeen = map[string]bool{}
	m.maxFirings = 8
	return m
}

func (e *Explorer) runOne(m *Machine, fn *ssa.Function) {
	m.solver.ResetTo(m.keep)
	m.keep = m.solver.depth
	g0 := m.newG("main", nil)
	g0.fn = func() {
		m.call(nil, 0, fn, nil)
		m.endReason = "returned"
	}
	m.cur = g0
	g0.resume <- struct{}{}
	<-m.execDone
	m.killing = true
	for _, g := range m.gs {
		if !g.done {
			select {
			case g.resume <- struct{}{}:
			case <-time.After(2 * time.Second):
				// goroutine is not parked (should not happen)
			}
		}
	}
	m.wg.Wait()
}

func (e *Explorer) merge(m *Machine) {
	e.mu.Lock()
	defer e.mu.Unlock()
	r := e.res
	r.Executions++
	if notesDebug {
		fmt.Println("NOTE:", m.note)
	}
	r.Steps += int64(m.steps)
	r.Asserts += int64(m.assertsChecked)
	if m.pathDead {
		r.PathsDead++
	}
	reason := m.endReason
	if m.pathDead {
		reason = "infeasible"
	}
	if m.abortErr != nil {
		reason = "unsupported"
	}
	if reason == "" {
		reason = "aborted"
	}
	r.EndReasons[reason]++
	if m.horizon {
		r.Horizon++
	}
	for _, v := range m.violations {
		key := v.Kind + "|" + v.Label + "|" + v.Detail
		if e.violSeen == nil {
			e.violSeen = map[string]int{}
		}
		e.violSeen[key]++
		e.violTotal++
		// keep every distinct (label, detail) class, at most 3 instances each
		if e.violSeen[key] <= 3 && len(r.Violations) < 600 {
			r.Violations = append(r.Violations, v)
		}
	}
	for k, v := range m.covers {
		if v {
			r.Covers[k] = true
		} else if _, ok := r.Covers[k]; !ok {
			r.Covers[k] = false
		}
	}
	for _, u := range m.unknown {
		if len(r.Unknowns) < 20 {
			r.Unknowns = append(r.Unknowns, u)
		}
	}
	if m.abortErr != nil {
		msg := fmt.Sprint(m.abortErr)
		dup := false
		for _, u := range r.Unsupported {
			if u == msg {
				dup = true
			}
		}
		if !dup && len(r.Unsupported) < 20 {
			r.Unsupported = append(r.Unsupported, msg)
		}
	}
	for f := range m.funcsSeen {
		e.funcs[f] = true
	}
	for k, v := range m.stubsSeen {
		r.Stubs[k] += v
	}
	if r.Forks == nil {
		r.Forks = map[string]int{}
	}
	for k, v := range m.kindStats {
		r.Forks[k] += v
	}
	for _, rc := range m.races {
		// every distinct race is also a violation of the harness (label = field + the two functions involved)
		fa, fb := rc.SiteA, rc.SiteB
		if i := strings.Index(fa, "@"); i >= 0 {
			fa = fa[:i]
		}
		if i := strings.Index(fb, "@"); i >= 0 {
			fb = fb[:i]
		}
		fa, fb = shortFn(fa), shortFn(fb)
		if fb < fa {
			fa, fb = fb, fa
		}
		label := "data race on " + shortFn(rc.Field) + " between " + fa + " and " + fb
		key := "race|" + label
		if e.violSeen == nil {
			e.violSeen = map[string]int{}
		}
		e.violSeen[key]++
		if e.violSeen[key] <= 2 {
			r.Violations = append(r.Violations, &Violation{Kind: "race", Label: label, Detail: rc.Kind + " " + rc.SiteA + " / " + rc.SiteB, Choices: append([]int{}, m.forced[:m.pos]...), Model: m.lastModel()})
		}
		dup := false
		for _, o := range r.Races {
			if o.SiteA == rc.SiteA && o.SiteB == rc.SiteB {
				dup = true
			}
		}
		if !dup {
			r.Races = append(r.Races, rc)
		}
	}
	st := m.solver.stats
	r.QuerySat, r.QueryUnsat, r.QueryUnknown = r.QuerySat+st.Sat, r.QueryUnsat+st.Unsat, r.QueryUnknown+st.Unknown
	r.SolverErrors += st.Errors
	r.SolverS += st.Time.Seconds()
	m.solver.stats = SolverStats{}
	if len(r.Samples) < 4 && !m.pathDead && m.abortErr == nil && m.endReason == "returned" && m.pos > 0 {
		// a sample: the decision vector and a witness for the inputs of this path
		if m.solver.dead == false {
			// witness from the solver for this path
			s := map[string]any{"decisions": append([]int{}, m.forced[:m.pos]...)}
			if m.solver.Check() == Sat {
				s["witness_inputs"] = m.decodeInputs(m.solver.Model())
			}
			r.Samples = append(r.Samples, s)
		}
	}
}

func shortFn(s string) string {
	s = strings.ReplaceAll(s, "github.com/basecamp/kamal-proxy/internal/server.", "")
	s = strings.ReplaceAll(s, "github.com/basecamp/kamal-proxy/internal/", "")
	return s
}

// lastModel: a witness for the inputs of the finished path (used for schedule-only violations).
func (m *Machine) lastModel() map[string]any {
	if m.solver.dead {
		return nil
	}
	if m.solver.Check() == Sat {
		return m.decodeInputs(m.solver.Model())
	}
	return nil
}
