package main

// Structural model of encoding/json over the engine's typed values. Marshal walks a value by its static Go type
// (exported fields, `json:"name,omitempty"` / "-" tags, slices, maps, pointers, MarshalJSON methods called from
// their real SSA bodies) into an abstract JSON tree whose leaves may stay symbolic; the "bytes" it returns are a
// one-element slice holding that tree. Unmarshal is the inverse and calls real UnmarshalJSON methods.

import (
	"fmt"
	"go/types"
	"reflect"
	"strings"
)

type JKind int

const (
	JNull JKind = iota
	JBool
	JNum
	JStr
	JArr
	JObj
)

type JNode struct {
	Kind   JKind
	Leaf   Value // *Term (bool / number) or *Str
	Elems  []*JNode
	Keys   []string
	Fields []*JNode
	Float  bool
}

type jsonBlob struct {
	node      *JNode
	truncated bool
}

func blobBytes(n *JNode) []Value {
	return []Value{&Native{Kind: "jsonblob", Data: &jsonBlob{node: n}}}
}

func asBlob(bs []Value) (*jsonBlob, bool) {
	var found *jsonBlob
	for _, b := range bs {
		if nv, ok := b.(*Native); ok && nv.Kind == "jsonblob" {
			if found != nil {
				return nil, false
			}
			found = nv.Data.(*jsonBlob)
		}
	}
	return found, found != nil
}

type jsonTag struct {
	name      string
	omitempty bool
	skip      bool
}

func parseJSONTag(f *types.Var, tag string) jsonTag {
	jt := jsonTag{name: f.Name()}
	if !f.Exported() {
		jt.skip = true
		return jt
	}
	v, ok := reflect.StructTag(tag).Lookup("json")
	if !ok {
		return jt
	}
	if v == "-" {
		jt.skip = true
		return jt
	}
	parts := strings.Split(v, ",")
	if parts[0] != "" {
		jt.name = parts[0]
	}
	for _, p := range parts[1:] {
		if p == "omitempty" {
			jt.omitempty = true
		}
	}
	return jt
}

func (m *Machine) jsonMethod(t types.Type, name string) bool {
	return m.hasMethod(t, name)
}

func (m *Machine) isEmptyValue(v Value) bool {
	switch x := v.(type) {
	case *Term:
		if x.IsConst() {
			return x.C == 0
		}
		// symbolic: decide
		var z *Term
		switch x.S.K {
		case SBool:
			z = tFalse
		case SFP:
			z = MkFP(0)
		default:
			z = MkBV(x.S.W, 0)
		}
		return m.branch(Eq(x, z))
	case *Str:
		return m.branch(Eq(x.Len(), MkBV(64, 0)))
	case []Value:
		return len(x) == 0
	case *MapV:
		return x == nil || len(x.live()) == 0
	case *Value:
		return x == nil
	case Iface:
		return x.T == nil
	}
	return false
}

func (m *Machine) jsonMarshal(fr *frame, t types.Type, v Value) *JNode {
	// Marshaler?
	if _, isPtr := t.Underlying().(*types.Pointer); isPtr {
		if p, ok := v.(*Value); ok && p == nil {
			return &JNode{Kind: JNull}
		}
	}
	if _, isI := t.Underlying().(*types.Interface); !isI && m.jsonMethod(t, "MarshalJSON") {
		r := m.callMethod(fr, Iface{T: t, V: v}, "MarshalJSON")
		tup := r.(Tuple)
		if e := tup[1].(Iface); e.T != nil {
			panic(unsupported{"MarshalJSON returned an error in the model"})
		}
		if b, ok := asBlob(tup[0].([]Value)); ok {
			return b.node
		}
		panic(unsupported{"MarshalJSON did not return model bytes"})
	}
	// value type whose pointer has MarshalJSON (addressable case is not modelled)
	switch u := t.Underlying().(type) {
	case *types.Basic:
		switch {
		case isBool(u):
			return &JNode{Kind: JBool, Leaf: v}
		case isString(u):
			return &JNode{Kind: JStr, Leaf: v}
		case isFloat(u):
			return &JNode{Kind: JNum, Leaf: v, Float: true}
		default:
			return &JNode{Kind: JNum, Leaf: v}
		}
	case *types.Pointer:
		p := v.(*Value)
		if p == nil {
			return &JNode{Kind: JNull}
		}
		if m.jsonMethod(t, "MarshalJSON") {
			// handled above
		}
		return m.jsonMarshal(fr, u.Elem(), *p)
	case *types.Interface:
		itf := v.(Iface)
		if itf.T == nil {
			return &JNode{Kind: JNull}
		}
		return m.jsonMarshal(fr, itf.T, itf.V)
	case *types.Slice:
		s := v.([]Value)
		if s == nil {
			return &JNode{Kind: JNull}
		}
		n := &JNode{Kind: JArr}
		for _, e := range s {
			n.Elems = append(n.Elems, m.jsonMarshal(fr, u.Elem(), e))
		}
		return n
	case *types.Array:
		n := &JNode{Kind: JArr}
		for _, e := range v.(Array) {
			n.Elems = append(n.Elems, m.jsonMarshal(fr, u.Elem(), e))
		}
		return n
	case *types.Map:
		mp := v.(*MapV)
		if mp == nil {
			return &JNode{Kind: JNull}
		}
		n := &JNode{Kind: JObj}
		for _, e := range mp.live() {
			ks, ok := e.key.(*Str)
			if !ok {
				panic(unsupported{"json model: non-string map key"})
			}
			n.Keys = append(n.Keys, m.concStr(ks, "json map key"))
			n.Fields = append(n.Fields, m.jsonMarshal(fr, u.Elem(), e.val))
		}
		return n
	case *types.Struct:
		st := v.(Struct)
		n := &JNode{Kind: JObj}
		for i := 0; i < u.NumFields(); i++ {
			f := u.Field(i)
			jt := parseJSONTag(f, u.Tag(i))
			if jt.skip {
				continue
			}
			if jt.omitempty && m.isEmptyValue(st[i]) {
				continue
			}
			n.Keys = append(n.Keys, jt.name)
			n.Fields = append(n.Fields, m.jsonMarshal(fr, f.Type(), st[i]))
		}
		return n
	}
	panic(unsupported{"json model: marshal of " + t.String()})
}

func jsonErr(m *Machine, msg string) Iface { return m.newErrorString(ConcStr(msg)) }

// jsonUnmarshal stores node into *p (of type t). Returns an error interface value (nil Iface on success).
func (m *Machine) jsonUnmarshal(fr *frame, t types.Type, p *Value, n *JNode) Iface {
	return m.jsonUnmarshalX(fr, t, p, n, false)
}

// skipSelf: the value was reached through a named pointer type without methods (the `type alias *T` idiom), so
// *T's UnmarshalJSON is not consulted at this level (as encoding/json's indirect() behaves).
func (m *Machine) jsonUnmarshalX(fr *frame, t types.Type, p *Value, n *JNode, skipSelf bool) Iface {
	// Unmarshaler on *T
	pt := types.NewPointer(t)
	if !skipSelf && m.jsonMethod(pt, "UnmarshalJSON") && n.Kind != JNull {
		r := m.callMethod(fr, Iface{T: pt, V: p}, "UnmarshalJSON", blobBytes(n))
		return r.(Iface)
	}
	switch u := t.Underlying().(type) {
	case *types.Basic:
		if n.Kind == JNull {
			return Iface{}
		}
		switch {
		case isBool(u):
			if n.Kind != JBool {
				return jsonErr(m, "json: cannot unmarshal into bool")
			}
			*p = n.Leaf
		case isString(u):
			if n.Kind != JStr {
				return jsonErr(m, "json: cannot unmarshal into string")
			}
			*p = n.Leaf
		case isFloat(u):
			if n.Kind != JNum {
				return jsonErr(m, "json: cannot unmarshal into float")
			}
			lt := n.Leaf.(*Term)
			if lt.S.K != SFP {
				lt = FpFromBV(lt, true)
			}
			*p = lt
		default:
			if n.Kind != JNum {
				return jsonErr(m, "json: cannot unmarshal into number")
			}
			w, signed, _ := intInfo(u)
			lt := n.Leaf.(*Term)
			if lt.S.K == SFP {
				if !lt.IsConst() || lt.FVal() != float64(int64(lt.FVal())) {
					return jsonErr(m, "json: cannot unmarshal number with fraction into integer")
				}
				lt = MkBV(64, uint64(int64(lt.FVal())))
			}
			if lt.S.W > w {
				lt = Extract(w-1, 0, lt)
			} else if lt.S.W < w {
				if signed {
					lt = SExt(lt, w)
				} else {
					lt = ZExt(lt, w)
				}
			}
			*p = lt
		}
		return Iface{}
	case *types.Pointer:
		if n.Kind == JNull {
			*p = (*Value)(nil)
			return Iface{}
		}
		cur := (*p).(*Value)
		if cur == nil {
			var cell Value = zero(u.Elem())
			cur = &cell
			*p = cur
		}
		return m.jsonUnmarshal(fr, u.Elem(), cur, n)
	case *types.Slice:
		if n.Kind == JNull {
			*p = []Value(nil)
			return Iface{}
		}
		if n.Kind != JArr {
			return jsonErr(m, "json: cannot unmarshal into slice")
		}
		out := make([]Value, len(n.Elems))
		for i, e := range n.Elems {
			out[i] = zero(u.Elem())
			if err := m.jsonUnmarshal(fr, u.Elem(), &out[i], e); err.T != nil {
				return err
			}
		}
		*p = out
		return Iface{}
	case *types.Map:
		if n.Kind == JNull {
			return Iface{}
		}
		if n.Kind != JObj {
			return jsonErr(m, "json: cannot unmarshal into map")
		}
		mp, _ := (*p).(*MapV)
		if mp == nil {
			m.mapSeq++
			mp = &MapV{id: m.mapSeq}
			*p = mp
		}
		for i, k := range n.Keys {
			var cell Value = zero(u.Elem())
			if err := m.jsonUnmarshal(fr, u.Elem(), &cell, n.Fields[i]); err.T != nil {
				return err
			}
			m.mapSet(mp, ConcStr(k), cell)
		}
		return Iface{}
	case *types.Struct:
		if n.Kind == JNull {
			return Iface{}
		}
		if n.Kind != JObj {
			return jsonErr(m, "json: cannot unmarshal into struct")
		}
		st := (*p).(Struct)
		for i := 0; i < u.NumFields(); i++ {
			f := u.Field(i)
			jt := parseJSONTag(f, u.Tag(i))
			if jt.skip {
				continue
			}
			for k, key := range n.Keys {
				if key == jt.name || strings.EqualFold(key, jt.name) {
					if err := m.jsonUnmarshal(fr, f.Type(), &st[i], n.Fields[k]); err.T != nil {
						return err
					}
					break
				}
			}
		}
		return Iface{}
	case *types.Interface:
		return jsonErr(m, "json model: unmarshal into interface not supported")
	}
	panic(unsupported{"json model: unmarshal into " + t.String()})
}

func init() {
	intrinsics["encoding/json.Marshal"] = func(m *Machine, fr *frame, a []Value) Value {
		itf := a[0].(Iface)
		if itf.T == nil {
			return Tuple{blobBytes(&JNode{Kind: JNull}), Iface{}}
		}
		return Tuple{blobBytes(m.jsonMarshal(fr, itf.T, itf.V)), Iface{}}
	}
	intrinsics["encoding/json.Unmarshal"] = func(m *Machine, fr *frame, a []Value) Value {
		b, ok := asBlob(a[0].([]Value))
		if !ok || b.truncated {
			return jsonErr(m, "unexpected end of JSON input")
		}
		target := a[1].(Iface)
		pt, isPtr := target.T.Underlying().(*types.Pointer)
		if !isPtr || target.V.(*Value) == nil {
			return jsonErr(m, "json: Unmarshal(non-pointer)")
		}
		_, namedPtr := target.T.(*types.Named)
		skip := namedPtr && !m.jsonMethod(target.T, "UnmarshalJSON")
		return m.jsonUnmarshalX(fr, pt.Elem(), target.V.(*Value), b.node, skip)
	}
	// Encoder / Decoder: opaque natives holding the io.Writer / io.Reader
	intrinsics["encoding/json.NewEncoder"] = func(m *Machine, fr *frame, a []Value) Value {
		var cell Value = &Native{Kind: "jsonenc", Data: a[0]}
		return &cell
	}
	intrinsics["(*encoding/json.Encoder).Encode"] = func(m *Machine, fr *frame, a []Value) Value {
		w := (*a[0].(*Value)).(*Native).Data.(Iface)
		itf := a[1].(Iface)
		var node *JNode
		if itf.T == nil {
			node = &JNode{Kind: JNull}
		} else {
			node = m.jsonMarshal(fr, itf.T, itf.V)
		}
		// one Write of the whole document (as the real encoder does)
		r := m.callMethod(fr, w, "Write", blobBytes(node))
		if tup, ok := r.(Tuple); ok {
			return tup[1]
		}
		return Iface{}
	}
	intrinsics["encoding/json.NewDecoder"] = func(m *Machine, fr *frame, a []Value) Value {
		var cell Value = &Native{Kind: "jsondec", Data: a[0]}
		return &cell
	}
	intrinsics["(*encoding/json.Decoder).Decode"] = func(m *Machine, fr *frame, a []Value) Value {
		r := (*a[0].(*Value)).(*Native).Data.(Iface)
		var all []Value
		for i := 0; i < 64; i++ {
			buf := make([]Value, 8)
			for j := range buf {
				buf[j] = MkBV(8, 0)
			}
			res := m.callMethod(fr, r, "Read", buf).(Tuple)
			n := int(m.concInt(res[0].(*Term), "json decoder read count"))
			all = append(all, buf[:n]...)
			if e := res[1].(Iface); e.T != nil {
				break
			}
			if n == 0 {
				break
			}
		}
		if len(all) == 0 {
			eof := m.globalAddr(m.pkgs["io"].Var("EOF"))
			return *eof
		}
		b, ok := asBlob(all)
		if !ok || b.truncated {
			return jsonErr(m, "unexpected end of JSON input")
		}
		target := a[1].(Iface)
		pt := target.T.Underlying().(*types.Pointer)
		return m.jsonUnmarshal(fr, pt.Elem(), target.V.(*Value), b.node)
	}
	// harness access to the model: structural equality of two marshalled documents, truncation
	regHarness("vJSONEqual", func(m *Machine, fr *frame, a []Value) Value {
		x, okx := asBlob(a[0].([]Value))
		y, oky := asBlob(a[1].([]Value))
		if !okx || !oky {
			return MkBool(len(a[0].([]Value)) == 0 && len(a[1].([]Value)) == 0)
		}
		if x.truncated || y.truncated {
			return tFalse
		}
		return m.jsonEq(x.node, y.node)
	})
	regHarness("vJSONTruncate", func(m *Machine, fr *frame, a []Value) Value {
		b, ok := asBlob(a[0].([]Value))
		if !ok {
			return a[0]
		}
		return []Value{&Native{Kind: "jsonblob", Data: &jsonBlob{node: b.node, truncated: true}}}
	})
	regHarness("vJSONString", func(m *Machine, fr *frame, a []Value) Value {
		b, ok := asBlob(a[0].([]Value))
		if !ok {
			return ConcStr(fmt.Sprintf("<%d raw bytes>", len(a[0].([]Value))))
		}
		return ConcStr(b.node.String())
	})
}

func (m *Machine) jsonEq(x, y *JNode) *Term {
	if x.Kind != y.Kind {
		return tFalse
	}
	switch x.Kind {
	case JNull:
		return tTrue
	case JBool, JNum:
		a, b := x.Leaf.(*Term), y.Leaf.(*Term)
		if a.S != b.S {
			return tFalse
		}
		return Eq(a, b)
	case JStr:
		return StrEq(x.Leaf.(*Str), y.Leaf.(*Str))
	case JArr:
		if len(x.Elems) != len(y.Elems) {
			return tFalse
		}
		cs := []*Term{}
		for i := range x.Elems {
			cs = append(cs, m.jsonEq(x.Elems[i], y.Elems[i]))
		}
		return And(cs...)
	case JObj:
		if len(x.Keys) != len(y.Keys) {
			return tFalse
		}
		cs := []*Term{}
		for i, k := range x.Keys {
			found := false
			for j, k2 := range y.Keys {
				if k == k2 {
					cs = append(cs, m.jsonEq(x.Fields[i], y.Fields[j]))
					found = true
					break
				}
			}
			if !found {
				return tFalse
			}
		}
		return And(cs...)
	}
	return tFalse
}

func (n *JNode) String() string {
	switch n.Kind {
	case JNull:
		return "null"
	case JBool, JNum:
		return describe(n.Leaf)
	case JStr:
		return describe(n.Leaf)
	case JArr:
		parts := []string{}
		for _, e := range n.Elems {
			parts = append(parts, e.String())
		}
		return "[" + strings.Join(parts, ",") + "]"
	case JObj:
		parts := []string{}
		for i, k := range n.Keys {
			parts = append(parts, fmt.Sprintf("%q:%s", k, n.Fields[i].String()))
		}
		return "{" + strings.Join(parts, ",") + "}"
	}
	return "?"
}
