package main

import (
	"fmt"
	"os"
	"strings"

	"golang.org/x/tools/go/ssa"
)

type accessRec struct {
	gid   int
	clock int
	site  string
}

type shadowCell struct {
	lastWrite *accessRec
	reads     []*accessRec
}

type raceRec struct {
	Field string
	SiteA string
	SiteB string
	Kind  string
}

func (m *Machine) site(fr *frame, instr ssa.Instruction) string {
	if fr == nil {
		return "?"
	}
	pos := "?"
	if instr != nil {
		pos = shortPos(m.prog, instr.Pos())
		if pos == "?" {
			// fall back to enclosing function position
			pos = shortPos(m.prog, fr.fn.Pos())
		}
	}
	return fr.fn.String() + "@" + pos
}

func (m *Machine) hb(a *accessRec, g *G) bool {
	if a.gid == g.id {
		return true
	}
	if a.gid < len(g.vc) && a.clock <= g.vc[a.gid] {
		return true
	}
	return false
}

func (m *Machine) trackable(fr *frame) bool {
	if !m.t2 || len(m.gs) < 2 || fr == nil || fr.g == nil {
		return false
	}
	if fr.g.atomicDepth > 0 || fr.g.atomicExplicit > 0 {
		return false
	}
	// accesses made by harness code (stubs, monitors, the harness body) are not the program's
	if m.isHarnessFn(fr.fn) {
		return false
	}
	return true
}

func (m *Machine) isHarnessFn(fn *ssa.Function) bool {
	if v, ok := m.harnessFnCache[fn]; ok {
		return v
	}
	f := fn
	for f.Parent() != nil {
		f = f.Parent()
	}
	v := false
	if f.Pos().IsValid() {
		fname := m.prog.Fset.Position(f.Pos()).Filename
		// (the litmus programs of the engine self-test count as program code)
		v = strings.Contains(fname, "zz_verif_") && !strings.Contains(fname, "zz_verif_litmus")
	}
	if m.harnessFnCache == nil {
		m.harnessFnCache = map[*ssa.Function]bool{}
	}
	m.harnessFnCache[fn] = v
	return v
}

func (m *Machine) checkShadow(sc *shadowCell, fr *frame, write bool, site string, what string) {
	g := fr.g
	me := &accessRec{gid: g.id, clock: g.vc[g.id], site: site}
	report := func(o *accessRec, kind string) {
		key := o.site + "|" + site
		if m.raceSeen[key] {
			return
		}
		m.raceSeen[key] = true
		m.races = append(m.races, &raceRec{Field: what, SiteA: o.site, SiteB: site, Kind: kind})
	}
	if sc.lastWrite != nil && !m.hb(sc.lastWrite, g) {
		if write {
			report(sc.lastWrite, "write-write")
		} else {
			report(sc.lastWrite, "write-read")
		}
	}
	if write {
		for _, r := range sc.reads {
			if !m.hb(r, g) {
				report(r, "read-write")
			}
		}
		sc.lastWrite = me
		sc.reads = sc.reads[:0]
	} else {
		// keep one read per goroutine
		for i, r := range sc.reads {
			if r.gid == g.id {
				sc.reads[i] = me
				return
			}
		}
		sc.reads = append(sc.reads, me)
	}
}

func (m *Machine) onAccess(fr *frame, p *Value, write bool, instr ssa.Instruction) {
	if !m.trackable(fr) {
		return
	}
	if _, isLocal := m.localOf(fr, p); isLocal {
		return
	}
	sc := m.shadow[p]
	if sc == nil {
		sc = &shadowCell{}
		m.shadow[p] = sc
	}
	what := ""
	switch x := instr.(type) {
	case *ssa.UnOp:
		what = describeAddr(x.X)
	case *ssa.Store:
		what = describeAddr(x.Addr)
	}
	if raceDebug && strings.Contains(what, raceDebugField) {
		fmt.Printf("ACCESS g%d write=%v %s vc=%v what=%s\n", fr.g.id, write, m.site(fr, instr), fr.g.vc, what)
	}
	m.checkShadow(sc, fr, write, m.site(fr, instr), what)
}

var raceDebugField = os.Getenv("GOSYM_RACEDEBUG")
var raceDebug = raceDebugField != ""

func (m *Machine) localOf(fr *frame, p *Value) (int, bool) {
	for i := range fr.locals {
		if &fr.locals[i] == p {
			return i, true
		}
	}
	return 0, false
}

func describeAddr(v ssa.Value) string {
	switch a := v.(type) {
	case *ssa.FieldAddr:
		st := deref(a.X.Type()).Underlying()
		if s, ok := st.(interface {
			Field(int) interface{ Name() string }
		}); ok {
			_ = s
		}
		return fmt.Sprintf("%s.%s", deref(a.X.Type()).String(), fieldName(a))
	case *ssa.Global:
		return a.String()
	case *ssa.IndexAddr:
		return "elem of " + a.X.Type().String()
	}
	return v.Type().String()
}

func (m *Machine) onMapAccess(fr *frame, mp *MapV, write bool, instr ssa.Instruction) {
	if fr == nil {
		fr = m.curFrame
	}
	if !m.trackable(fr) {
		return
	}
	sc := m.mapShadow[mp]
	if sc == nil {
		sc = &shadowCell{}
		m.mapShadow[mp] = sc
	}
	site := "?"
	if instr != nil {
		site = m.site(fr, instr)
	} else {
		site = fr.fn.String()
	}
	m.checkShadow(sc, fr, write, site, "map")
}

func (m *Machine) atomicAcquire(p *Value) {
	if vc := m.atomicVC[p]; vc != nil {
		m.acq(vc, "race.go#1")
	}
}

func (m *Machine) atomicRelease(p *Value) {
	m.tick(m.cur)
	vc := m.atomicVC[p]
	joinVC(&vc, m.cur.vc)
	m.atomicVC[p] = vc
}

func (m *Machine) lockEvent(p *Value, kind string) {}
