package main

import (
	"fmt"
	"go/token"
	"go/types"
	"runtime"
	"strings"
	"sync"

	"golang.org/x/tools/go/ssa"
)

type deferred struct {
	fn    Value
	args  []Value
	instr *ssa.Defer
	tail  *deferred
}

type frame struct {
	m                *Machine
	g                *G
	caller           *frame
	fn               *ssa.Function
	block, prevBlock *ssa.BasicBlock
	env              map[ssa.Value]Value
	locals           []Value
	defers           *deferred
	result           Value
	panicking        bool
	panic            any
	phitemps         []Value
	loopCount        map[*ssa.BasicBlock]int
	depth            int
}

// targetPanic is a panic raised by the interpreted program.
type targetPanic struct{ v Value }

// control panics of the engine (never visible to the interpreted program)
type execAbort struct{}

func isControlPanic(p any) bool {
	switch p.(type) {
	case execAbort, unsupported:
		return true
	}
	return false
}

func (fr *frame) get(key ssa.Value) Value {
	switch key := key.(type) {
	case nil:
		return nil
	case *ssa.Function:
		return key
	case *ssa.Builtin:
		return key
	case *ssa.Const:
		return constValue(key)
	case *ssa.Global:
		return fr.m.globalAddr(key)
	}
	if r, ok := fr.env[key]; ok {
		return r
	}
	panic(unsupported{fmt.Sprintf("get: no value for %T %v in %s", key, key.Name(), fr.fn)})
}

func (fr *frame) runDefer(d *deferred) {
	var ok bool
	defer func() {
		if !ok {
			p := recover()
			if isControlPanic(p) {
				panic(p)
			}
			fr.panicking = true
			fr.panic = p
		}
	}()
	fr.m.call(fr, d.instr.Pos(), d.fn, d.args)
	ok = true
}

func (fr *frame) runDefers() {
	for d := fr.defers; d != nil; d = d.tail {
		fr.runDefer(d)
	}
	fr.defers = nil
	if fr.panicking {
		panic(fr.panic)
	}
}

func (m *Machine) lookupMethod(typ types.Type, meth *types.Func) *ssa.Function {
	return m.prog.LookupMethod(typ, meth.Pkg(), meth.Name())
}

func (m *Machine) rtPanic(msg string) {
	// remember where the runtime error happened (for reports)
	chain := ""
	for f, n := m.curFrame, 0; f != nil && n < 6; f, n = f.caller, n+1 {
		chain += " <- " + f.fn.Name()
	}
	m.lastPanicSite = chain
	panic(targetPanic{Iface{T: m.runtimeErrorString, V: ConcStr("runtime error: " + msg)}})
}

type continuation int

const (
	kNext continuation = iota
	kReturn
	kJump
)

func (m *Machine) visitInstr(fr *frame, instr ssa.Instruction) continuation {
	m.steps++
	m.curFrame = fr
	if m.steps > m.maxSteps {
		if schedDebug {
			buf := make([]byte, 1<<16)
			n := runtime.Stack(buf, false)
			for _, l := range strings.Split(string(buf[:n]), "\n") {
				if strings.Contains(l, "main.(*Machine).") && !strings.Contains(l, "callSSA") && !strings.Contains(l, "visitInstr") && !strings.Contains(l, "runFrame") && !strings.Contains(l, ".call(") {
					fmt.Println("STACK", strings.TrimSpace(l)[:60])
				}
			}
		}
		panic(unsupported{fmt.Sprintf("step limit exceeded (unwinding failure) in g%d(%s) %s <- %s", fr.g.id, fr.g.name, fr.fn.Name(), func() string {
			if fr.caller != nil {
				return fr.caller.fn.Name()
			}
			return ""
		}())})
	}
	switch instr := instr.(type) {
	case *ssa.DebugRef:

	case *ssa.UnOp:
		fr.env[instr] = m.unop(fr, instr, fr.get(instr.X))

	case *ssa.BinOp:
		fr.env[instr] = m.binop(instr.Op, instr.X.Type(), fr.get(instr.X), fr.get(instr.Y))

	case *ssa.Call:
		fn, args := m.prepareCall(fr, &instr.Call)
		fr.env[instr] = m.call(fr, instr.Pos(), fn, args)

	case *ssa.ChangeInterface:
		fr.env[instr] = fr.get(instr.X)

	case *ssa.ChangeType:
		fr.env[instr] = fr.get(instr.X)

	case *ssa.Convert:
		fr.env[instr] = m.conv(instr.Type(), instr.X.Type(), fr.get(instr.X))

	case *ssa.MultiConvert:
		fr.env[instr] = m.conv(instr.Type(), instr.X.Type(), fr.get(instr.X))

	case *ssa.SliceToArrayPointer:
		panic(unsupported{"SliceToArrayPointer"})

	case *ssa.MakeInterface:
		fr.env[instr] = Iface{T: instr.X.Type(), V: fr.get(instr.X)}

	case *ssa.Extract:
		fr.env[instr] = fr.get(instr.Tuple).(Tuple)[instr.Index]

	case *ssa.Slice:
		fr.env[instr] = m.slice(instr, fr.get(instr.X), fr.get(instr.Low), fr.get(instr.High), fr.get(instr.Max))

	case *ssa.Return:
		switch len(instr.Results) {
		case 0:
		case 1:
			fr.result = fr.get(instr.Results[0])
		default:
			res := make(Tuple, 0, len(instr.Results))
			for _, r := range instr.Results {
				res = append(res, fr.get(r))
			}
			fr.result = res
		}
		fr.block = nil
		return kReturn

	case *ssa.RunDefers:
		fr.runDefers()

	case *ssa.Panic:
		panic(targetPanic{fr.get(instr.X)})

	case *ssa.Send:
		m.chanSend(fr.get(instr.Chan).(*ChanV), fr.get(instr.X))

	case *ssa.Store:
		addr := fr.get(instr.Addr).(*Value)
		if addr == nil {
			m.rtPanic("invalid memory address or nil pointer dereference")
		}
		m.onAccess(fr, addr, true, instr)
		*addr = copyVal(fr.get(instr.Val))
		if len(m.watches) > 0 {
			m.fireWatches(fr, instr)
		}

	case *ssa.If:
		succ := 1
		if m.branch(fr.get(instr.Cond).(*Term)) {
			succ = 0
		}
		fr.prevBlock, fr.block = fr.block, fr.block.Succs[succ]
		return kJump

	case *ssa.Jump:
		fr.prevBlock, fr.block = fr.block, fr.block.Succs[0]
		return kJump

	case *ssa.Defer:
		fn, args := m.prepareCall(fr, &instr.Call)
		defers := &fr.defers
		if instr.DeferStack != nil {
			if into := fr.get(instr.DeferStack); into != nil {
				defers = into.(**deferred)
			}
		}
		*defers = &deferred{fn: fn, args: args, instr: instr, tail: *defers}

	case *ssa.Go:
		fn, args := m.prepareCall(fr, &instr.Call)
		m.goStmt(fr, instr, fn, args)

	case *ssa.MakeChan:
		fr.env[instr] = m.newChan(int(m.concInt(fr.get(instr.Size).(*Term), "chan size")))

	case *ssa.Alloc:
		var addr *Value
		if instr.Heap {
			addr = new(Value)
			fr.env[instr] = addr
		} else {
			addr = fr.env[instr].(*Value)
		}
		*addr = zero(deref(instr.Type()))

	case *ssa.MakeSlice:
		cp := int(m.concretize(fr.get(instr.Cap).(*Term), 0, 1<<16, "makeslice cap"))
		ln := int(m.concretize(fr.get(instr.Len).(*Term), 0, int64(cp), "makeslice len"))
		if cp > 1<<20 {
			panic(unsupported{"MakeSlice too large"})
		}
		slice := make([]Value, cp)
		tElt := instr.Type().Underlying().(*types.Slice).Elem()
		z := zero(tElt)
		for i := range slice {
			slice[i] = copyVal(z)
		}
		fr.env[instr] = slice[:ln]

	case *ssa.MakeMap:
		m.mapSeq++
		fr.env[instr] = &MapV{id: m.mapSeq}

	case *ssa.Range:
		fr.env[instr] = m.rangeIter(fr.get(instr.X), instr.X.Type())

	case *ssa.Next:
		fr.env[instr] = fr.get(instr.Iter).(iterator).next(m)

	case *ssa.FieldAddr:
		p := fr.get(instr.X).(*Value)
		if p == nil {
			m.rtPanic("invalid memory address or nil pointer dereference")
		}
		fr.env[instr] = &(*p).(Struct)[instr.Field]

	case *ssa.Field:
		fr.env[instr] = fr.get(instr.X).(Struct)[instr.Field]

	case *ssa.IndexAddr:
		x := fr.get(instr.X)
		idx := fr.get(instr.Index).(*Term)
		switch x := x.(type) {
		case []Value:
			i := m.checkIndex(idx, instr.Index.Type(), len(x))
			fr.env[instr] = &x[i]
		case *Value:
			if x == nil {
				m.rtPanic("invalid memory address or nil pointer dereference")
			}
			a := (*x).(Array)
			i := m.checkIndex(idx, instr.Index.Type(), len(a))
			fr.env[instr] = &a[i]
		default:
			panic(unsupported{fmt.Sprintf("IndexAddr on %T", x)})
		}

	case *ssa.Index:
		x := fr.get(instr.X)
		idx := fr.get(instr.Index).(*Term)
		switch x := x.(type) {
		case Array:
			i := m.checkIndex(idx, instr.Index.Type(), len(x))
			fr.env[instr] = x[i]
		case *Str:
			fr.env[instr] = m.strIndex(x, idx, instr.Index.Type())
		default:
			panic(unsupported{fmt.Sprintf("Index on %T", x)})
		}

	case *ssa.Lookup:
		fr.env[instr] = m.lookup(instr, fr.get(instr.X), fr.get(instr.Index))

	case *ssa.MapUpdate:
		mp := fr.get(instr.Map).(*MapV)
		if mp == nil {
			panic(targetPanic{Iface{T: m.runtimeErrorString, V: ConcStr("assignment to entry in nil map")}})
		}
		m.onMapAccess(fr, mp, true, instr)
		m.mapSet(mp, fr.get(instr.Key), copyVal(fr.get(instr.Value)))

	case *ssa.TypeAssert:
		fr.env[instr] = m.typeAssert(instr, fr.get(instr.X).(Iface))

	case *ssa.MakeClosure:
		var bindings []Value
		for _, binding := range instr.Bindings {
			bindings = append(bindings, fr.get(binding))
		}
		fr.env[instr] = &Closure{instr.Fn.(*ssa.Function), bindings}

	case *ssa.Select:
		fr.env[instr] = m.selectStmt(fr, instr)

	default:
		panic(unsupported{fmt.Sprintf("instruction %T", instr)})
	}
	return kNext
}

func deref(t types.Type) types.Type {
	if p, ok := t.Underlying().(*types.Pointer); ok {
		return p.Elem()
	}
	panic("deref of non-pointer " + t.String())
}

func (m *Machine) prepareCall(fr *frame, call *ssa.CallCommon) (fn Value, args []Value) {
	v := fr.get(call.Value)
	if call.Method == nil {
		fn = v
	} else {
		recv := v.(Iface)
		if recv.T == nil {
			m.rtPanic("invalid memory address or nil pointer dereference (method call on nil interface " + call.Method.Name() + ")")
		}
		f := m.lookupMethod(recv.T, call.Method)
		if f == nil {
			panic(unsupported{fmt.Sprintf("method set for dynamic type %v does not contain %s", recv.T, call.Method)})
		}
		fn = f
		args = append(args, recv.V)
	}
	for _, arg := range call.Args {
		args = append(args, fr.get(arg))
	}
	return
}

func (m *Machine) call(caller *frame, callpos token.Pos, fn Value, args []Value) Value {
	switch fn := fn.(type) {
	case *ssa.Function:
		if fn == nil {
			m.rtPanic("call of nil function")
		}
		return m.callSSA(caller, callpos, fn, args, nil)
	case *Closure:
		if fn == nil {
			m.rtPanic("call of nil function")
		}
		return m.callSSA(caller, callpos, fn.Fn, args, fn.Env)
	case *ssa.Builtin:
		return m.callBuiltin(caller, callpos, fn, args)
	case nil:
		m.rtPanic("invalid memory address or nil pointer dereference (call of nil func)")
	}
	panic(unsupported{fmt.Sprintf("cannot call %T", fn)})
}

var funcKeyCache sync.Map

func funcKey(fn *ssa.Function) string {
	if v, ok := funcKeyCache.Load(fn); ok {
		return v.(string)
	}
	s := fn.String()
	funcKeyCache.Store(fn, s)
	return s
}

func (m *Machine) callSSA(caller *frame, callpos token.Pos, fn *ssa.Function, args []Value, env []Value) Value {
	fr := &frame{m: m, caller: caller, fn: fn}
	if caller != nil {
		fr.g = caller.g
		fr.depth = caller.depth + 1
		if fr.depth > 400 {
			panic(unsupported{"call depth exceeded in " + fn.String()})
		}
	} else {
		fr.g = m.cur
	}
	name := funcKey(fn)
	if caller != nil && isPkgInit(fn) {
		return nil // nested package initializers run lazily on first global access
	}
	if fn.Parent() == nil {
		// harness-level stub?
		if st := m.stubFor(name); st != nil && (caller == nil || !m.insideStub(caller, st)) {
			m.noteStub(name)
			return m.callSSA(caller, callpos, st, args, nil)
		}
		if in := intrinsics[name]; in != nil {
			m.noteStub(name)
			return in(m, fr, args)
		}
		if gi := genericIntrinsic(fn); gi != nil {
			m.noteStub(fn.Origin().String())
			return gi(m, fr, args)
		}
	}
	if fn.Blocks == nil {
		panic(unsupported{"no code for function: " + name})
	}
	if fn.Pos().IsValid() && strings.HasSuffix(m.prog.Fset.Position(fn.Pos()).Filename, "zz_verif_support.go") {
		panic(unsupported{"harness intrinsic without engine implementation: " + name})
	}
	if fn.TypeParams().Len() > 0 && len(fn.TypeArgs()) == 0 {
		panic(unsupported{"uninstantiated generic " + name})
	}
	m.noteFunc(fn)
	atomicPkg := m.isAtomicPkg(fn)
	if atomicPkg {
		fr.g.atomicDepth++
		defer func() { fr.g.atomicDepth-- }()
	} else if fr.g.atomicDepth > 0 {
		// a library frame calls back into the program (e.g. http.HandlerFunc.ServeHTTP -> handler): the program's code
		// is scheduled and race-checked as usual
		saved := fr.g.atomicDepth
		fr.g.atomicDepth = 0
		defer func() { fr.g.atomicDepth = saved }()
	}
	if m.watch != nil {
		if w := m.watch[name]; w {
			m.traceCall(name, args)
		}
	}

	fr.env = make(map[ssa.Value]Value, 16)
	fr.block = fn.Blocks[0]
	fr.locals = make([]Value, len(fn.Locals))
	for i, l := range fn.Locals {
		fr.locals[i] = zero(deref(l.Type()))
		fr.env[l] = &fr.locals[i]
	}
	for i, p := range fn.Params {
		fr.env[p] = args[i]
	}
	for i, fv := range fn.FreeVars {
		fr.env[fv] = env[i]
	}
	for fr.block != nil {
		m.runFrame(fr)
	}
	return fr.result
}

func (m *Machine) runFrame(fr *frame) {
	defer func() {
		if fr.block == nil {
			return
		}
		p := recover()
		if isControlPanic(p) {
			panic(p)
		}
		if _, ok := p.(targetPanic); !ok {
			// interpreter bug or Go runtime error inside the engine: surface as unsupported with context
			panic(unsupported{fmt.Sprintf("engine panic in %s: %v", fr.fn, p)})
		}
		fr.panicking = true
		fr.panic = p
		fr.runDefers()
		fr.block = fr.fn.Recover
		if fr.block == nil {
			// recovered without named results: return zero value(s)
			fr.result = zeroResults(fr.fn)
		}
	}()

	for {
		if fr.loopCount == nil {
			fr.loopCount = map[*ssa.BasicBlock]int{}
		}
		fr.loopCount[fr.block]++
		if fr.loopCount[fr.block] > m.maxUnwind {
			panic(unsupported{fmt.Sprintf("unwinding bound %d exceeded in %s block %d", m.maxUnwind, fr.fn, fr.block.Index)})
		}
		nonPhis := m.executePhis(fr)
		for _, instr := range nonPhis {
			if m.trace {
				if v, ok := instr.(ssa.Value); ok {
					fmt.Printf("[g%d] %s\t%s = %s\n", fr.g.id, fr.fn.Name(), v.Name(), instr)
				} else {
					fmt.Printf("[g%d] %s\t%s\n", fr.g.id, fr.fn.Name(), instr)
				}
			}
			if m.visitInstr(fr, instr) == kReturn {
				return
			}
		}
	}
}

func zeroResults(fn *ssa.Function) Value {
	res := fn.Signature.Results()
	switch res.Len() {
	case 0:
		return nil
	case 1:
		return zero(res.At(0).Type())
	}
	return zero(res)
}

func (m *Machine) executePhis(fr *frame) []ssa.Instruction {
	firstNonPhi := -1
	for i, instr := range fr.block.Instrs {
		if _, ok := instr.(*ssa.Phi); !ok {
			firstNonPhi = i
			break
		}
	}
	nonPhis := fr.block.Instrs[firstNonPhi:]
	if firstNonPhi > 0 {
		phis := fr.block.Instrs[:firstNonPhi]
		predIndex := -1
		for i, p := range fr.block.Preds {
			if p == fr.prevBlock {
				predIndex = i
				break
			}
		}
		fr.phitemps = fr.phitemps[:0]
		for _, phi := range phis {
			phi := phi.(*ssa.Phi)
			fr.phitemps = append(fr.phitemps, fr.get(phi.Edges[predIndex]))
		}
		for i, phi := range phis {
			fr.env[phi.(*ssa.Phi)] = fr.phitemps[i]
		}
	}
	return nonPhis
}

func (m *Machine) doRecover(caller *frame) Value {
	if caller != nil && !caller.panicking && caller.caller != nil && caller.caller.panicking {
		caller.caller.panicking = false
		p := caller.caller.panic
		caller.caller.panic = nil
		switch p := p.(type) {
		case targetPanic:
			return p.v
		default:
			panic(unsupported{fmt.Sprintf("unexpected panic type %T in recover", p)})
		}
	}
	return Iface{}
}

// ---- builtins ----

func (m *Machine) callBuiltin(caller *frame, callpos token.Pos, fn *ssa.Builtin, args []Value) Value {
	switch fn.Name() {
	case "append":
		if len(args) == 1 {
			return args[0]
		}
		if s, ok := args[1].(*Str); ok {
			// append([]byte, string...)
			bs := m.strToBytes(s)
			return append(args[0].([]Value), bs...)
		}
		src := args[1].([]Value)
		if len(src) == 0 {
			return args[0]
		}
		dst := args[0].([]Value)
		out := make([]Value, len(dst), len(dst)+len(src))
		if cap(dst)-len(dst) >= len(src) {
			out = dst
		} else {
			copy(out, dst)
		}
		for _, v := range src {
			out = append(out, copyVal(v))
		}
		return out

	case "copy":
		dst := args[0].([]Value)
		if s, ok := args[1].(*Str); ok {
			bs := m.strToBytes(s)
			n := copy(dst, bs)
			return MkBV(64, uint64(n))
		}
		src := args[1].([]Value)
		n := len(src)
		if len(dst) < n {
			n = len(dst)
		}
		tmp := make([]Value, n)
		for i := 0; i < n; i++ {
			tmp[i] = copyVal(src[i])
		}
		copy(dst, tmp)
		return MkBV(64, uint64(n))

	case "close":
		m.chanClose(args[0].(*ChanV))
		return nil

	case "delete":
		mp := args[0].(*MapV)
		if mp != nil {
			m.onMapAccess(caller, mp, true, nil)
			if e := m.mapFind(mp, args[1]); e != nil {
				e.deleted = true
			}
		}
		return nil

	case "clear":
		switch x := args[0].(type) {
		case *MapV:
			if x != nil {
				for _, e := range x.entries {
					e.deleted = true
				}
			}
		default:
			panic(unsupported{"clear on non-map"})
		}
		return nil

	case "print", "println":
		return nil

	case "len":
		switch x := args[0].(type) {
		case *Str:
			return x.Len()
		case Array:
			return MkBV(64, uint64(len(x)))
		case *Value:
			if x == nil {
				return MkBV(64, 0)
			}
			return MkBV(64, uint64(len((*x).(Array))))
		case []Value:
			return MkBV(64, uint64(len(x)))
		case *MapV:
			if x == nil {
				return MkBV(64, 0)
			}
			m.onMapAccess(caller, x, false, nil)
			return MkBV(64, uint64(len(x.live())))
		case *ChanV:
			if x == nil {
				return MkBV(64, 0)
			}
			return MkBV(64, uint64(len(x.buf)))
		}
		panic(unsupported{fmt.Sprintf("len: illegal operand %T", args[0])})

	case "cap":
		switch x := args[0].(type) {
		case Array:
			return MkBV(64, uint64(len(x)))
		case []Value:
			return MkBV(64, uint64(cap(x)))
		case *ChanV:
			if x == nil {
				return MkBV(64, 0)
			}
			return MkBV(64, uint64(x.capacity))
		}
		panic(unsupported{fmt.Sprintf("cap: illegal operand %T", args[0])})

	case "min", "max":
		sig := fn.Type().(*types.Signature)
		t := sig.Params().At(0).Type()
		res := args[0]
		for _, a := range args[1:] {
			var c *Term
			if fn.Name() == "min" {
				c = m.binop(token.LSS, t, a, res).(*Term)
			} else {
				c = m.binop(token.GTR, t, a, res).(*Term)
			}
			switch rv := res.(type) {
			case *Term:
				res = Ite(c, a.(*Term), rv)
			default:
				if m.branch(c) {
					res = a
				}
			}
		}
		return res

	case "panic":
		panic(targetPanic{args[0]})

	case "recover":
		return m.doRecover(caller)

	case "ssa:wrapnilchk":
		recv := args[0]
		if p, ok := recv.(*Value); ok && p == nil {
			m.rtPanic("value method called using nil pointer")
		}
		return recv

	case "ssa:deferstack":
		return &caller.defers
	}
	panic(unsupported{"builtin " + fn.Name()})
}

func shortPos(prog *ssa.Program, pos token.Pos) string {
	if pos == token.NoPos {
		return "?"
	}
	p := prog.Fset.Position(pos)
	f := p.Filename
	if i := strings.LastIndex(f, "/"); i >= 0 {
		f = f[i+1:]
	}
	return fmt.Sprintf("%s:%d", f, p.Line)
}

// fireWatches runs the harness monitors registered (vWatchStore) for the field just written by program code: the
// monitor observes the state change at the very instruction that makes it, so the harness need not wrap (and thereby
// serialise) the function that contains the write.
func (m *Machine) fireWatches(fr *frame, instr *ssa.Store) {
	fa, ok := instr.Addr.(*ssa.FieldAddr)
	if !ok || m.isHarnessFn(fr.fn) {
		return
	}
	what := describeAddr(fa)
	for _, w := range m.watches {
		if strings.HasSuffix(what, w.field) {
			g := fr.g
			if g != nil {
				g.atomicExplicit++
			}
			m.call(fr, 0, w.fn, []Value{Iface{T: fa.X.Type(), V: fr.get(fa.X)}})
			if g != nil {
				g.atomicExplicit--
			}
		}
	}
}
