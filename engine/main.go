package main

import (
	"encoding/json"
	"flag"
	"fmt"
	"os"
	"runtime/debug"
	"runtime/pprof"
	"strconv"
	"strings"
	"time"
)

func parseParams(s string) map[string]int {
	out := map[string]int{}
	for _, kv := range strings.Split(s, ",") {
		if kv == "" {
			continue
		}
		p := strings.SplitN(kv, "=", 2)
		if len(p) == 2 {
			v, _ := strconv.Atoi(p[1])
			out[p[0]] = v
		}
	}
	return out
}

func setupToolchain() {
	// the repository needs go >= 1.24.2; the matching toolchain is in the module cache (offline)
	for _, d := range []string{os.Getenv("GOSYM_GOBIN"), "/root/go/pkg/mod/golang.org/toolchain@v0.0.1-go1.24.2.linux-amd64/bin"} {
		if d == "" {
			continue
		}
		if _, err := os.Stat(d + "/go"); err == nil {
			os.Setenv("PATH", d+":"+os.Getenv("PATH"))
			break
		}
	}
	os.Setenv("GOTOOLCHAIN", "local")
	os.Setenv("GOFLAGS", "-mod=readonly")
	os.Setenv("GOPROXY", "off")
	os.Setenv("CGO_ENABLED", "0")
}

func main() {
	debug.SetGCPercent(400)
	setupToolchain()
	if len(os.Args) < 2 {
		fmt.Println("usage: gosym run|check ...")
		os.Exit(2)
	}
	switch os.Args[1] {
	case "run":
		cmdRun(os.Args[2:])
	case "check":
		cmdCheck(os.Args[2:])
	default:
		fmt.Println("unknown command")
		os.Exit(2)
	}
}

func cmdRun(args []string) {
	fs := flag.NewFlagSet("run", flag.ExitOnError)
	repo := fs.String("repo", "/repo", "repository")
	hdir := fs.String("harness-dir", "/verif/harness", "harness directory")
	harness := fs.String("harness", "", "harness function")
	pkg := fs.String("pkg", "server", "server|cmd")
	params := fs.String("params", "", "k=v,...")
	workers := fs.Int("workers", 16, "workers")
	timeout := fs.Int("timeout", 600, "seconds")
	maxExec := fs.Int64("max-exec", 0, "max executions")
	out := fs.String("json", "", "write result json")
	trace := fs.Bool("trace", false, "trace instructions")
	fs.BoolVar(&verbose, "v", false, "verbose")
	fs.StringVar(&solverBin, "solver", "z3", "z3|z3-new|cvc5")
	prof := fs.String("cpuprofile", "", "write cpu profile")
	fs.Parse(args)
	if *prof != "" {
		f, _ := os.Create(*prof)
		pprof.StartCPUProfile(f)
		defer pprof.StopCPUProfile()
	}
	t0 := time.Now()
	P, err := LoadProgram(*repo, *hdir)
	if err != nil {
		fmt.Println("LOAD FAILED:", err)
		os.Exit(2)
	}
	fmt.Fprintf(os.Stderr, "loaded in %.1fs\n", time.Since(t0).Seconds())
	pkgPath := serverPkgPath
	if *pkg == "cmd" {
		pkgPath = cmdPkgPath
	}
	e := &Explorer{P: P, harness: *harness, pkgPath: pkgPath, params: parseParams(*params), workers: *workers,
		deadline: time.Now().Add(time.Duration(*timeout) * time.Second), maxExec: *maxExec, trace: *trace}
	res := e.Run()
	b, _ := json.MarshalIndent(res, "", " ")
	if *out != "" {
		os.WriteFile(*out, b, 0644)
	}
	// summary
	r := *res
	fnr, fns := r.FuncsRepo, r.FuncsStd
	r.FuncsRepo, r.FuncsStd = nil, nil
	b, _ = json.MarshalIndent(r, "", " ")
	fmt.Println(string(b))
	fmt.Printf("repo funcs: %d, std funcs: %d\n", len(fnr), len(fns))
	if verbose {
		for _, f := range fnr {
			fmt.Println("  ", f)
		}
	}
}
