package main

import (
	"go/types"

	"golang.org/x/tools/go/ssa"
)

func fieldName(a *ssa.FieldAddr) string {
	st := deref(a.X.Type()).Underlying().(*types.Struct)
	return st.Field(a.Field).Name()
}
