package main

// Conformance of the engine's string / bit-vector models with the real Go functions they stand for:
// exhaustive over short strings of a small alphabet, evaluated through the same term evaluator the replay uses, and
// (for a sample) cross-checked by asking z3 whether the term can differ from the real answer.

import (
	"fmt"
	"strings"
	"testing"
)

const testAlphabet = "/.:*a%A "

func allStrings(maxLen int) []string {
	out := []string{""}
	frontier := []string{""}
	for l := 0; l < maxLen; l++ {
		var next []string
		for _, p := range frontier {
			for _, c := range testAlphabet {
				next = append(next, p+string(c))
			}
		}
		out = append(out, next...)
		frontier = next
	}
	return out
}

// symOf builds a symbolic string of capacity capN whose variables are bound to s in the returned model.
func symOf(name, s string, capN int, model map[string]uint64) *Str {
	n := MkVar(name+"_len", BV(64))
	model[n.Name] = uint64(len(s))
	bs := make([]*Term, capN)
	for i := range bs {
		bs[i] = MkVar(fmt.Sprintf("%s_b%d", name, i), BV(8))
		if i < len(s) {
			model[bs[i].Name] = uint64(s[i])
		} else {
			model[bs[i].Name] = 0x5a // garbage beyond the length must not matter
		}
	}
	return &Str{n: n, b: bs}
}

func evalStr(s *Str, model map[string]uint64) string {
	if s.conc {
		return s.s
	}
	memo := map[*Term]uint64{}
	n := int(evalTerm(s.n, model, memo))
	if n > len(s.b) {
		return fmt.Sprintf("<len %d beyond cap %d>", n, len(s.b))
	}
	b := make([]byte, n)
	for i := 0; i < n; i++ {
		b[i] = byte(evalTerm(s.b[i], model, memo))
	}
	return string(b)
}

func evalBool(t *Term, model map[string]uint64) bool {
	return evalTerm(t, model, map[*Term]uint64{}) == 1
}

func evalInt(t *Term, model map[string]uint64) int64 {
	return sext(evalTerm(t, model, map[*Term]uint64{}), t.S.W)
}

func TestStringModelsExhaustive(t *testing.T) {
	strs := allStrings(3)
	n := 0
	for _, a := range strs {
		for _, b := range strs {
			if len(a)+len(b) > 5 {
				continue
			}
			model := map[string]uint64{}
			sa, sb := symOf("a", a, 4, model), symOf("b", b, 3, model)
			check := func(what string, got, want any) {
				n++
				if fmt.Sprint(got) != fmt.Sprint(want) {
					t.Fatalf("%s(%q,%q): model %v, real %v", what, a, b, got, want)
				}
			}
			check("==", evalBool(StrEq(sa, sb), model), a == b)
			check("<", evalBool(StrLess(sa, sb), model), a < b)
			check("+", evalStr(StrConcat(sa, sb), model), a+b)
			check("HasPrefix", evalBool(StrHasPrefix(sa, sb), model), strings.HasPrefix(a, b))
			check("HasSuffix", evalBool(StrHasSuffix(sa, sb), model), strings.HasSuffix(a, b))
			check("Index", evalInt(StrIndex(sa, sb), model), int64(strings.Index(a, b)))
			check("Compare", evalInt(intrinsics["strings.Compare"](&Machine{}, nil, []Value{sa, sb}).(*Term), model), int64(strings.Compare(a, b)))
			// mixed concrete / symbolic
			check("==c", evalBool(StrEq(sa, ConcStr(b)), model), a == b)
			check("+c", evalStr(StrConcat(ConcStr(a), sb), model), a+b)
			check("HasPrefixc", evalBool(StrHasPrefix(sa, ConcStr(b)), model), strings.HasPrefix(a, b))
			check("Indexc", evalInt(StrIndex(sa, ConcStr(b)), model), int64(strings.Index(a, b)))
			m := &Machine{}
			// intrinsics with (s, sep) shape
			tp := intrinsics["strings.TrimPrefix"](m, nil, []Value{sa, sb}).(*Str)
			check("TrimPrefix", evalStr(tp, model), strings.TrimPrefix(a, b))
			ts := intrinsics["strings.TrimSuffix"](m, nil, []Value{sa, sb}).(*Str)
			check("TrimSuffix", evalStr(ts, model), strings.TrimSuffix(a, b))
			if b != "" {
				cut := intrinsics["strings.Cut"](m, nil, []Value{sa, ConcStr(b)}).(Tuple)
				wb, wa, wf := strings.Cut(a, b)
				check("Cut.before", evalStr(cut[0].(*Str), model), wb)
				check("Cut.after", evalStr(cut[1].(*Str), model), wa)
				check("Cut.found", evalBool(cut[2].(*Term), model), wf)
			}
		}
	}
	for _, a := range allStrings(4) {
		model := map[string]uint64{}
		sa := symOf("a", a, 5, model)
		m := &Machine{}
		for _, c := range testAlphabet {
			ct := MkBV(8, uint64(c))
			if got, want := evalInt(StrIndexByte(sa, ct), model), int64(strings.IndexByte(a, byte(c))); got != want {
				t.Fatalf("IndexByte(%q,%q): model %d real %d", a, c, got, want)
			}
			if got, want := evalInt(StrLastIndexByte(sa, ct), model), int64(strings.LastIndexByte(a, byte(c))); got != want {
				t.Fatalf("LastIndexByte(%q,%q): model %d real %d", a, c, got, want)
			}
			cnt := intrinsics["strings.Count"](m, nil, []Value{sa, ConcStr(string(c))}).(*Term)
			if got, want := evalInt(cnt, model), int64(strings.Count(a, string(c))); got != want {
				t.Fatalf("Count(%q,%q): model %d real %d", a, c, got, want)
			}
			tr := intrinsics["strings.Trim"](m, nil, []Value{sa, ConcStr(string(c))}).(*Str)
			if got, want := evalStr(tr, model), strings.Trim(a, string(c)); got != want {
				t.Fatalf("Trim(%q,%q): model %q real %q", a, c, got, want)
			}
			n += 4
		}
		lo := intrinsics["strings.ToLower"](m, nil, []Value{sa}).(*Str)
		if got, want := evalStr(lo, model), strings.ToLower(a); got != want {
			t.Fatalf("ToLower(%q): model %q real %q", a, got, want)
		}
		ra := intrinsics["strings.ReplaceAll"](m, nil, []Value{sa, ConcStr("-"), ConcStr("_")}).(*Str)
		if got, want := evalStr(ra, model), strings.ReplaceAll(a, "-", "_"); got != want {
			t.Fatalf("ReplaceAll(%q): model %q real %q", a, got, want)
		}
		// slicing with symbolic bounds
		for lo := 0; lo <= len(a); lo++ {
			for hi := lo; hi <= len(a); hi++ {
				lt, ht := MkVar("lo", BV(64)), MkVar("hi", BV(64))
				model["lo"], model["hi"] = uint64(lo), uint64(hi)
				if got, want := evalStr(StrSlice(sa, lt, ht), model), a[lo:hi]; got != want {
					t.Fatalf("slice %q[%d:%d]: model %q real %q", a, lo, hi, got, want)
				}
				n++
			}
		}
		for i := 0; i < len(a); i++ {
			it := MkVar("i", BV(64))
			model["i"] = uint64(i)
			if got := byte(evalTerm(StrIndexSym(sa, it), model, map[*Term]uint64{})); got != a[i] {
				t.Fatalf("index %q[%d]: model %q real %q", a, i, got, a[i])
			}
		}
	}
	t.Logf("%d model/real comparisons agreed", n)
}

// The same terms, decided by the solver: for sampled inputs the assertion "term != real answer" must be unsat once the
// variables are pinned (guards the SMT-LIB printing, define-fun sharing and the solver pipe).
func TestStringModelsViaSolver(t *testing.T) {
	s := NewSolver(20000)
	defer s.Close()
	strs := allStrings(2)
	checked := 0
	for i, a := range strs {
		for j, b := range strs {
			if (i*7+j*3)%11 != 0 {
				continue
			}
			s.ResetTo(0)
			model := map[string]uint64{}
			sa, sb := symOf(fmt.Sprintf("a%d_%d", i, j), a, 3, model), symOf(fmt.Sprintf("b%d_%d", i, j), b, 3, model)
			pin := func(st *Str, v string) {
				s.Assert(Eq(st.n, MkBV(64, uint64(len(v)))))
				for k := 0; k < len(v); k++ {
					s.Assert(Eq(st.b[k], MkBV(8, uint64(v[k]))))
				}
			}
			pin(sa, a)
			pin(sb, b)
			want := []*Term{
				Eq(StrEq(sa, sb), MkBool(a == b)),
				Eq(StrLess(sa, sb), MkBool(a < b)),
				Eq(StrHasPrefix(sa, sb), MkBool(strings.HasPrefix(a, b))),
				Eq(StrHasSuffix(sa, sb), MkBool(strings.HasSuffix(a, b))),
				Eq(StrIndex(sa, sb), MkBV(64, uint64(int64(strings.Index(a, b))))),
				StrEq(StrConcat(sa, sb), ConcStr(a+b)),
			}
			if r := s.CheckWith(Not(And(want...)), false); r != Unsat {
				t.Fatalf("solver disagrees for (%q,%q): %v", a, b, r)
			}
			checked++
		}
	}
	t.Logf("%d solver cross-checks unsat", checked)
}

// Linear integer time terms agree with plain 64-bit arithmetic.
func TestLinearTimeTerms(t *testing.T) {
	model := map[string]uint64{}
	mk := func(name string, v uint64) *Term {
		x := MkLinVar(name, 20)
		model[name] = v
		return x
	}
	a, b, c := mk("ta", 5), mk("tb", 1000), mk("tc", 0)
	now := BvBin("bvadd", MkBV(64, 0), a)
	d1 := BvBin("bvadd", now, b)
	d2 := BvBin("bvadd", BvBin("bvadd", now, c), a)
	if evalInt(BvBin("bvsub", d1, now), model) != 1000 {
		t.Fatal("sub")
	}
	if !evalBool(BvCmp("bvsle", d2, d1), model) || evalBool(BvCmp("bvult", d1, d2), model) {
		t.Fatal("cmp")
	}
	if ite := Ite(BvCmp("bvslt", a, MkBV(64, 0)), MkBV(64, 0), a); ite != a {
		t.Fatal("max(d,0) of a non-negative duration must fold to d")
	}
	if evalInt(BvBin("bvmul", MkBV(64, 2), b), model) != 2000 {
		t.Fatal("mul")
	}
	s := NewSolver(20000)
	defer s.Close()
	s.ResetTo(0)
	// a+b <= a+c+a  is satisfiable only if b <= c + a
	s.Assert(BvCmp("bvsle", d1, d2))
	s.Assert(Eq(a, MkBV(64, 3)))
	s.Assert(Eq(c, MkBV(64, 1)))
	if r := s.CheckWith(BvCmp("bvsgt", b, MkBV(64, 4)), false); r != Unsat {
		t.Fatalf("LIA reasoning: %v", r)
	}
	if r := s.CheckWith(Eq(b, MkBV(64, 4)), false); r != Sat {
		t.Fatalf("LIA reasoning: %v", r)
	}
}
