package main

// Native models for sync, sync/atomic, time, errors, fmt and a few unsafe-using helpers.

import (
	"fmt"
	"go/types"
	"math"
	"mime"
	"regexp"
	"sort"
	"strings"

	"golang.org/x/tools/go/ssa"
)

func (m *Machine) mutex(p *Value) *mutexState {
	ms := m.mutexes[p]
	if ms == nil {
		ms = &mutexState{}
		m.mutexes[p] = ms
	}
	return ms
}

func (m *Machine) callMethod(fr *frame, recv Iface, name string, args ...Value) Value {
	if recv.T == nil {
		m.rtPanic("nil interface method call " + name)
	}
	ms := m.prog.MethodSets.MethodSet(recv.T)
	var sel *types.Selection
	for i := 0; i < ms.Len(); i++ {
		if ms.At(i).Obj().Name() == name {
			sel = ms.At(i)
			break
		}
	}
	if sel == nil {
		return nil
	}
	fn := m.prog.MethodValue(sel)
	return m.call(fr, 0, fn, append([]Value{recv.V}, args...))
}

func (m *Machine) hasMethod(t types.Type, name string) bool {
	ms := m.prog.MethodSets.MethodSet(t)
	for i := 0; i < ms.Len(); i++ {
		if ms.At(i).Obj().Name() == name {
			return true
		}
	}
	return false
}

func (m *Machine) lookupType(pkgPath, name string) types.Type {
	p := m.pkgs[pkgPath]
	if p == nil {
		panic(unsupported{"package not loaded: " + pkgPath})
	}
	return p.Type(name).Type()
}

// newErrorString builds *errors.errorString{s}
func (m *Machine) newErrorString(s *Str) Iface {
	t := m.lookupType("errors", "errorString")
	var cell Value = Struct{s}
	return Iface{T: types.NewPointer(t), V: &cell}
}

func (m *Machine) timeStruct(ns *Term) Value {
	// time.Time{wall uint64, ext int64, loc *Location}; we keep nanoseconds of virtual time in ext
	return Struct{MkBV(64, 0), ns, (*Value)(nil)}
}

func init() {
	// ---------- sync.Mutex / RWMutex ----------
	intrinsics["(*sync.Mutex).Lock"] = func(m *Machine, fr *frame, a []Value) Value {
		p := a[0].(*Value)
		ms := m.mutex(p)
		m.schedPoint("lock")
		// a blocked Lock call excludes new readers (sync.RWMutex: "a blocked Lock call excludes new readers from
		// acquiring the lock"), which is what makes recursive read locking deadlock-prone
		ms.waitingWriters++
		m.blockUntil("Mutex.Lock", func() bool { return !ms.locked && ms.readers == 0 })
		ms.waitingWriters--
		ms.locked = true
		ms.owner = m.cur
		m.acq(ms.vc, "lock")
		m.acq(ms.rvc, "lock-after-readers") // a writer also comes after every reader that released before it
		m.lockEvent(p, "lock")
		return nil
	}
	intrinsics["(*sync.Mutex).TryLock"] = func(m *Machine, fr *frame, a []Value) Value {
		p := a[0].(*Value)
		ms := m.mutex(p)
		m.schedPoint("trylock")
		if ms.locked || ms.readers > 0 {
			return tFalse
		}
		ms.locked = true
		ms.owner = m.cur
		m.acq(ms.vc, "models.go#3")
		return tTrue
	}
	intrinsics["(*sync.Mutex).Unlock"] = func(m *Machine, fr *frame, a []Value) Value {
		p := a[0].(*Value)
		ms := m.mutex(p)
		if !ms.locked {
			panic(targetPanic{Iface{T: m.runtimeErrorString, V: ConcStr("sync: unlock of unlocked mutex")}})
		}
		m.tick(m.cur)
		ms.vc = append([]int{}, m.cur.vc...)
		ms.locked = false
		ms.owner = nil
		m.lockEvent(p, "unlock")
		m.schedPoint("unlock")
		return nil
	}
	intrinsics["(*sync.RWMutex).Lock"] = intrinsics["(*sync.Mutex).Lock"]
	intrinsics["(*sync.RWMutex).Unlock"] = intrinsics["(*sync.Mutex).Unlock"]
	intrinsics["(*sync.RWMutex).RLock"] = func(m *Machine, fr *frame, a []Value) Value {
		p := a[0].(*Value)
		ms := m.mutex(p)
		m.schedPoint("rlock")
		m.blockUntil("RWMutex.RLock", func() bool { return !ms.locked && ms.waitingWriters == 0 })
		ms.readers++
		m.acq(ms.vc, "models.go#4")
		m.lockEvent(p, "rlock")
		return nil
	}
	intrinsics["(*sync.RWMutex).RUnlock"] = func(m *Machine, fr *frame, a []Value) Value {
		p := a[0].(*Value)
		ms := m.mutex(p)
		if ms.readers <= 0 {
			panic(targetPanic{Iface{T: m.runtimeErrorString, V: ConcStr("sync: RUnlock of unlocked RWMutex")}})
		}
		m.tick(m.cur)
		joinVC(&ms.rvc, m.cur.vc) // readers do not synchronise with one another, only with the next writer
		ms.readers--
		m.lockEvent(p, "runlock")
		m.schedPoint("runlock")
		return nil
	}
	// ---------- sync.WaitGroup ----------
	wg := func(m *Machine, p *Value) *wgState {
		w := m.wgroups[p]
		if w == nil {
			w = &wgState{}
			m.wgroups[p] = w
		}
		return w
	}
	intrinsics["(*sync.WaitGroup).Add"] = func(m *Machine, fr *frame, a []Value) Value {
		w := wg(m, a[0].(*Value))
		d := m.concInt(a[1].(*Term), "WaitGroup.Add delta")
		m.tick(m.cur)
		joinVC(&w.vc, m.cur.vc)
		w.n += d
		if w.n < 0 {
			panic(targetPanic{Iface{T: m.runtimeErrorString, V: ConcStr("sync: negative WaitGroup counter")}})
		}
		if d < 0 {
			m.schedPoint("wg.done")
		}
		return nil
	}
	intrinsics["(*sync.WaitGroup).Done"] = func(m *Machine, fr *frame, a []Value) Value {
		return intrinsics["(*sync.WaitGroup).Add"](m, fr, []Value{a[0], MkBV(64, ^uint64(0))})
	}
	intrinsics["(*sync.WaitGroup).Wait"] = func(m *Machine, fr *frame, a []Value) Value {
		w := wg(m, a[0].(*Value))
		m.schedPoint("wg.wait")
		m.blockUntil("WaitGroup.Wait", func() bool { return w.n == 0 })
		m.acq(w.vc, "models.go#5")
		return nil
	}
	// ---------- sync.Once ----------
	intrinsics["(*sync.Once).Do"] = func(m *Machine, fr *frame, a []Value) Value {
		p := a[0].(*Value)
		o := m.onces[p]
		if o == nil {
			o = &onceState{}
			m.onces[p] = o
		}
		m.schedPoint("once")
		if o.done {
			m.acq(o.vc, "models.go#6")
			return nil
		}
		if o.running {
			m.blockUntil("Once.Do", func() bool { return o.done })
			m.acq(o.vc, "models.go#7")
			return nil
		}
		o.running = true
		defer func() {
			o.done = true
			m.tick(m.cur)
			o.vc = append([]int{}, m.cur.vc...)
		}()
		m.call(fr, 0, a[1], nil)
		return nil
	}
	// ---------- sync.Pool ----------
	// Get may hand back any object that was Put before (the real pool may also have dropped it): both are explored
	intrinsics["(*sync.Pool).Get"] = func(m *Machine, fr *frame, a []Value) Value {
		p := a[0].(*Value)
		// (reuse is modelled for the pools of the code under test only; the standard library's own pools always allocate)
		if items := m.pools[p]; len(items) > 0 && m.callerInRepo(fr) {
			if m.decideLazy("pool", func() []int { return []int{0, 1} }) == 1 {
				it := items[len(items)-1]
				m.pools[p] = items[:len(items)-1]
				return it
			}
		}
		st := (*p).(Struct)
		newFn := st[len(st)-1]
		if newFn == nil {
			return Iface{}
		}
		return m.call(fr, 0, newFn, nil)
	}
	intrinsics["(*sync.Pool).Put"] = func(m *Machine, fr *frame, a []Value) Value {
		p := a[0].(*Value)
		if !m.callerInRepo(fr) {
			return nil
		}
		if m.pools == nil {
			m.pools = map[*Value][]Value{}
		}
		m.pools[p] = append(m.pools[p], a[1])
		return nil
	}

	// ---------- sync/atomic ----------
	atomicLoad := func(m *Machine, fr *frame, a []Value) Value {
		p := a[0].(*Value)
		if p == nil {
			m.rtPanic("nil pointer dereference (atomic load)")
		}
		m.schedPoint("atomic")
		m.atomicAcquire(p)
		return copyVal(*p)
	}
	atomicStore := func(m *Machine, fr *frame, a []Value) Value {
		p := a[0].(*Value)
		if p == nil {
			m.rtPanic("nil pointer dereference (atomic store)")
		}
		m.schedPoint("atomic")
		m.atomicRelease(p)
		*p = a[1]
		return nil
	}
	atomicAdd := func(m *Machine, fr *frame, a []Value) Value {
		p := a[0].(*Value)
		m.schedPoint("atomic")
		m.atomicAcquire(p)
		m.atomicRelease(p)
		*p = BvBin("bvadd", (*p).(*Term), a[1].(*Term))
		return *p
	}
	atomicSwap := func(m *Machine, fr *frame, a []Value) Value {
		p := a[0].(*Value)
		m.schedPoint("atomic")
		m.atomicAcquire(p)
		m.atomicRelease(p)
		old := *p
		*p = a[1]
		return old
	}
	atomicCAS := func(m *Machine, fr *frame, a []Value) Value {
		p := a[0].(*Value)
		m.schedPoint("atomic")
		m.atomicAcquire(p)
		eq := m.eqDyn(*p, a[1])
		if m.branch(eq) {
			m.atomicRelease(p)
			*p = a[2]
			return tTrue
		}
		return tFalse
	}
	for _, ty := range []string{"Int32", "Int64", "Uint32", "Uint64", "Uintptr", "Pointer"} {
		intrinsics["sync/atomic.Load"+ty] = atomicLoad
		intrinsics["sync/atomic.Store"+ty] = atomicStore
		intrinsics["sync/atomic.Swap"+ty] = atomicSwap
		intrinsics["sync/atomic.CompareAndSwap"+ty] = atomicCAS
		if ty != "Pointer" {
			intrinsics["sync/atomic.Add"+ty] = atomicAdd
		}
	}
	for _, ty := range []string{"Int32", "Int64", "Uint32", "Uint64"} {
		low := strings.ToLower(ty[:1]) + ty[1:]
		_ = low
		intrinsics["internal/runtime/atomic.Load"+ty] = atomicLoad
	}
	// atomic.Value: struct{ v any }
	intrinsics["(*sync/atomic.Value).Load"] = func(m *Machine, fr *frame, a []Value) Value {
		p := a[0].(*Value)
		m.schedPoint("atomic")
		m.atomicAcquire(p)
		return (*p).(Struct)[0]
	}
	intrinsics["(*sync/atomic.Value).Store"] = func(m *Machine, fr *frame, a []Value) Value {
		p := a[0].(*Value)
		m.schedPoint("atomic")
		m.atomicRelease(p)
		(*p).(Struct)[0] = a[1]
		return nil
	}

	// ---------- time ----------
	intrinsics["time.Now"] = func(m *Machine, fr *frame, a []Value) Value { return m.timeStruct(m.now) }
	intrinsics["time.Since"] = func(m *Machine, fr *frame, a []Value) Value {
		return BvBin("bvsub", m.now, a[0].(Struct)[1].(*Term))
	}
	intrinsics["time.Until"] = func(m *Machine, fr *frame, a []Value) Value {
		return BvBin("bvsub", a[0].(Struct)[1].(*Term), m.now)
	}
	intrinsics["(time.Time).Add"] = func(m *Machine, fr *frame, a []Value) Value {
		return m.timeStruct(BvBin("bvadd", a[0].(Struct)[1].(*Term), a[1].(*Term)))
	}
	intrinsics["(time.Time).Sub"] = func(m *Machine, fr *frame, a []Value) Value {
		return BvBin("bvsub", a[0].(Struct)[1].(*Term), a[1].(Struct)[1].(*Term))
	}
	intrinsics["(time.Time).Before"] = func(m *Machine, fr *frame, a []Value) Value {
		return BvCmp("bvslt", a[0].(Struct)[1].(*Term), a[1].(Struct)[1].(*Term))
	}
	intrinsics["(time.Time).After"] = func(m *Machine, fr *frame, a []Value) Value {
		return BvCmp("bvsgt", a[0].(Struct)[1].(*Term), a[1].(Struct)[1].(*Term))
	}
	intrinsics["(time.Time).Equal"] = func(m *Machine, fr *frame, a []Value) Value {
		return Eq(a[0].(Struct)[1].(*Term), a[1].(Struct)[1].(*Term))
	}
	intrinsics["(time.Time).IsZero"] = func(m *Machine, fr *frame, a []Value) Value {
		return Eq(a[0].(Struct)[1].(*Term), MkBV(64, 0))
	}
	intrinsics["(time.Time).UnixMilli"] = func(m *Machine, fr *frame, a []Value) Value {
		return BvBin("bvsdiv", a[0].(Struct)[1].(*Term), MkBV(64, 1000000))
	}
	intrinsics["(time.Time).UnixNano"] = func(m *Machine, fr *frame, a []Value) Value {
		return a[0].(Struct)[1]
	}
	intrinsics["(time.Time).String"] = func(m *Machine, fr *frame, a []Value) Value { return ConcStr("<time>") }
	intrinsics["(time.Duration).String"] = func(m *Machine, fr *frame, a []Value) Value { return ConcStr("<duration>") }
	intrinsics["time.After"] = func(m *Machine, fr *frame, a []Value) Value {
		c := m.newChan(1)
		t := m.addTimer(a[0].(*Term), "time.After", func() {
			c.buf = append(c.buf, m.timeStruct(m.now))
		})
		t.ch, c.timer = c, t
		return c
	}
	// Ticker: struct{ C <-chan Time; r ...; initTicker bool }
	intrinsics["time.NewTicker"] = func(m *Machine, fr *frame, a []Value) Value {
		d := a[0].(*Term)
		if m.branch(BvCmp("bvsle", d, MkBV(64, 0))) {
			panic(targetPanic{m.newErrorString(ConcStr("non-positive interval for NewTicker"))})
		}
		tt := m.lookupType("time", "Ticker")
		var cell Value = zero(tt)
		c := m.newChan(1)
		cell.(Struct)[0] = c
		p := &cell
		t := m.addTimer(d, "ticker", nil)
		t.period = d
		t.fire = func() {
			if len(c.buf) == 0 {
				c.buf = append(c.buf, m.timeStruct(m.now))
			}
		}
		t.dormant = func() bool { return len(c.buf) > 0 }
		t.ch, c.timer = c, t
		m.tickers[p] = t
		return p
	}
	intrinsics["(*time.Ticker).Stop"] = func(m *Machine, fr *frame, a []Value) Value {
		if t := m.tickers[a[0].(*Value)]; t != nil {
			t.active = false
		}
		return nil
	}
	// Timer: struct{ C <-chan Time; r ... }
	newTimer := func(m *Machine, d *Term, f Value, fr *frame) *Value {
		tt := m.lookupType("time", "Timer")
		var cell Value = zero(tt)
		p := &cell
		var c *ChanV
		if f == nil {
			c = m.newChan(1)
			cell.(Struct)[0] = c
		}
		t := m.addTimer(d, "timer", nil)
		if c != nil {
			t.ch, c.timer = c, t
		}
		t.fire = func() {
			if f != nil {
				g := m.newG("AfterFunc", nil)
				// the callback happens after the timer's creation, not after whatever goroutine ran last
				g.vc = append([]int{}, t.vc...)
				for len(g.vc) <= g.id {
					g.vc = append(g.vc, 0)
				}
				g.vc[g.id] = 1
				g.fn = func() { m.call(nil, 0, f, nil) }
			} else {
				c.buf = append(c.buf, m.timeStruct(m.now))
			}
		}
		m.tickers[p] = t
		return p
	}
	intrinsics["time.NewTimer"] = func(m *Machine, fr *frame, a []Value) Value {
		return newTimer(m, a[0].(*Term), nil, fr)
	}
	intrinsics["time.AfterFunc"] = func(m *Machine, fr *frame, a []Value) Value {
		return newTimer(m, a[0].(*Term), a[1], fr)
	}
	intrinsics["(*time.Timer).Stop"] = func(m *Machine, fr *frame, a []Value) Value {
		if t := m.tickers[a[0].(*Value)]; t != nil {
			was := t.active
			t.active = false
			return MkBool(was)
		}
		return tFalse
	}

	// ---------- context.WithValue (the real one consults reflectlite for comparability) ----------
	intrinsics["context.WithValue"] = func(m *Machine, fr *frame, a []Value) Value {
		parent := a[0].(Iface)
		if parent.T == nil {
			panic(targetPanic{m.newErrorString(ConcStr("cannot create context from nil parent"))})
		}
		key := a[1].(Iface)
		if key.T == nil {
			panic(targetPanic{m.newErrorString(ConcStr("nil key"))})
		}
		if !types.Comparable(key.T) {
			panic(targetPanic{m.newErrorString(ConcStr("key is not comparable"))})
		}
		t := m.lookupType("context", "valueCtx")
		var cell Value = Struct{parent, key, a[2]}
		return Iface{T: types.NewPointer(t), V: &cell}
	}

	// ---------- mime.ParseMediaType: natively on a concrete argument ----------
	// mime's package initializer is not run (skipInitPkgs), and the function's SSA body then fails on every input
	// without any sign of it (net/http's form parsing ignores the error): found with seeded change C13_o.
	intrinsics["mime.ParseMediaType"] = func(m *Machine, fr *frame, a []Value) Value {
		mt, params, err := mime.ParseMediaType(m.argStr(a[0], "mime.ParseMediaType argument"))
		m.mapSeq++
		mp := &MapV{id: m.mapSeq}
		keys := make([]string, 0, len(params))
		for k := range params {
			keys = append(keys, k)
		}
		sort.Strings(keys)
		for _, k := range keys {
			m.mapSet(mp, ConcStr(k), ConcStr(params[k]))
		}
		var e Value = Iface{}
		if err != nil {
			e = m.newErrorString(ConcStr(err.Error()))
			return Tuple{ConcStr(mt), (*MapV)(nil), e}
		}
		return Tuple{ConcStr(mt), mp, e}
	}
	// ---------- regexp: compiled natively, matched natively on concrete strings ----------
	intrinsics["regexp.MustCompile"] = func(m *Machine, fr *frame, a []Value) Value {
		var cell Value = &Native{Kind: "regexp", Data: regexp.MustCompile(m.argStr(a[0], "regexp pattern"))}
		return &cell
	}
	intrinsics["(*regexp.Regexp).MatchString"] = func(m *Machine, fr *frame, a []Value) Value {
		re := (*a[0].(*Value)).(*Native).Data.(*regexp.Regexp)
		return MkBool(re.MatchString(m.argStr(a[1], "regexp subject")))
	}

	// ---------- math (concrete only) ----------
	for name, f := range map[string]func(float64) float64{"math.Floor": math.Floor, "math.Ceil": math.Ceil, "math.Trunc": math.Trunc, "math.Abs": math.Abs, "math.archFloor": math.Floor} {
		f := f
		name := name
		intrinsics[name] = func(m *Machine, fr *frame, a []Value) Value {
			t := a[0].(*Term)
			if !t.IsConst() {
				panic(unsupported{name + " on symbolic float"})
			}
			return MkFP(f(t.FVal()))
		}
	}

	// ---------- errors / fmt ----------
	intrinsics["errors.New"] = func(m *Machine, fr *frame, a []Value) Value {
		return m.newErrorString(a[0].(*Str))
	}
	intrinsics["errors.Is"] = func(m *Machine, fr *frame, a []Value) Value {
		return MkBool(m.errorsIs(fr, a[0].(Iface), a[1].(Iface), 0))
	}
	intrinsics["errors.As"] = func(m *Machine, fr *frame, a []Value) Value {
		return MkBool(m.errorsAs(fr, a[0].(Iface), a[1].(Iface), 0))
	}
	intrinsics["fmt.Errorf"] = func(m *Machine, fr *frame, a []Value) Value {
		format := m.argStr(a[0], "Errorf format")
		args := a[1].([]Value)
		msg := m.sprintf(fr, format, args)
		// %w wrapping
		widx := -1
		verbs := 0
		for i := 0; i < len(format); i++ {
			if format[i] == '%' && i+1 < len(format) {
				if format[i+1] == '%' {
					i++
					continue
				}
				j := i + 1
				for j < len(format) && strings.ContainsRune("+-# 0123456789.", rune(format[j])) {
					j++
				}
				if j < len(format) && format[j] == 'w' && widx < 0 {
					widx = verbs
				}
				verbs++
				i = j
			}
		}
		if widx >= 0 && widx < len(args) {
			if inner, ok := args[widx].(Iface); ok && inner.T != nil {
				t := m.lookupType("fmt", "wrapError")
				var cell Value = Struct{msg, inner}
				return Iface{T: types.NewPointer(t), V: &cell}
			}
		}
		return m.newErrorString(msg)
	}
	intrinsics["fmt.Sprintf"] = func(m *Machine, fr *frame, a []Value) Value {
		return m.sprintf(fr, m.argStr(a[0], "Sprintf format"), a[1].([]Value))
	}
	intrinsics["fmt.Sprint"] = func(m *Machine, fr *frame, a []Value) Value {
		var res *Str = emptyStr
		for _, v := range a[0].([]Value) {
			res = StrConcat(res, m.fmtValue(fr, 'v', v))
		}
		return res
	}
	intrinsics["fmt.Fprintf"] = func(m *Machine, fr *frame, a []Value) Value {
		s := m.sprintf(fr, m.argStr(a[1], "Fprintf format"), a[2].([]Value))
		bs := m.strToBytes(s)
		r := m.callMethod(fr, a[0].(Iface), "Write", bs)
		return r
	}
	intrinsics["fmt.Fprintln"] = func(m *Machine, fr *frame, a []Value) Value {
		var res *Str = emptyStr
		for i, v := range a[1].([]Value) {
			if i > 0 {
				res = StrConcat(res, ConcStr(" "))
			}
			res = StrConcat(res, m.fmtValue(fr, 'v', v))
		}
		res = StrConcat(res, ConcStr("\n"))
		return m.callMethod(fr, a[0].(Iface), "Write", m.strToBytes(res))
	}
	intrinsics["fmt.Fprint"] = func(m *Machine, fr *frame, a []Value) Value {
		var res *Str = emptyStr
		for _, v := range a[1].([]Value) {
			res = StrConcat(res, m.fmtValue(fr, 'v', v))
		}
		return m.callMethod(fr, a[0].(Iface), "Write", m.strToBytes(res))
	}
	for _, n := range []string{"fmt.Println", "fmt.Printf", "fmt.Print"} {
		intrinsics[n] = func(m *Machine, fr *frame, a []Value) Value {
			return Tuple{MkBV(64, 0), Iface{}}
		}
	}

	// ---------- log/slog: no-ops ----------
	for _, n := range []string{"log/slog.Info", "log/slog.Debug", "log/slog.Warn", "log/slog.Error",
		"(*log/slog.Logger).Info", "(*log/slog.Logger).Debug", "(*log/slog.Logger).Warn", "(*log/slog.Logger).Error",
		"log.Printf", "log.Println", "log.Print"} {
		intrinsics[n] = func(m *Machine, fr *frame, a []Value) Value { return nil }
	}
	intrinsics["log/slog.Default"] = func(m *Machine, fr *frame, a []Value) Value { return (*Value)(nil) }

	// ---------- strings.Builder (uses unsafe in the real code) ----------
	sb := func(m *Machine, p *Value) *Str {
		if s := m.builders[p]; s != nil {
			return s
		}
		return emptyStr
	}
	intrinsics["(*strings.Builder).WriteString"] = func(m *Machine, fr *frame, a []Value) Value {
		p := a[0].(*Value)
		s := a[1].(*Str)
		m.builders[p] = StrConcat(sb(m, p), s)
		return Tuple{s.Len(), Iface{}}
	}
	intrinsics["(*strings.Builder).WriteByte"] = func(m *Machine, fr *frame, a []Value) Value {
		p := a[0].(*Value)
		m.builders[p] = StrConcat(sb(m, p), (&Str{n: MkBV(64, 1), b: []*Term{a[1].(*Term)}}).normalize())
		return Iface{}
	}
	intrinsics["(*strings.Builder).Write"] = func(m *Machine, fr *frame, a []Value) Value {
		p := a[0].(*Value)
		bs := a[1].([]Value)
		ts := make([]*Term, len(bs))
		for i, b := range bs {
			ts[i] = b.(*Term)
		}
		m.builders[p] = StrConcat(sb(m, p), (&Str{n: MkBV(64, uint64(len(bs))), b: ts}).normalize())
		return Tuple{MkBV(64, uint64(len(bs))), Iface{}}
	}
	intrinsics["(*strings.Builder).String"] = func(m *Machine, fr *frame, a []Value) Value { return sb(m, a[0].(*Value)) }
	intrinsics["(*strings.Builder).Len"] = func(m *Machine, fr *frame, a []Value) Value { return sb(m, a[0].(*Value)).Len() }
	intrinsics["(*strings.Builder).Grow"] = func(m *Machine, fr *frame, a []Value) Value { return nil }
	intrinsics["(*strings.Builder).Reset"] = func(m *Machine, fr *frame, a []Value) Value {
		delete(m.builders, a[0].(*Value))
		return nil
	}
}

func (m *Machine) unwrapErr(fr *frame, e Iface) []Iface {
	if e.T == nil || !m.hasMethod(e.T, "Unwrap") {
		return nil
	}
	r := m.callMethod(fr, e, "Unwrap")
	switch rv := r.(type) {
	case Iface:
		if rv.T == nil {
			return nil
		}
		return []Iface{rv}
	case []Value:
		var out []Iface
		for _, x := range rv {
			if xi := x.(Iface); xi.T != nil {
				out = append(out, xi)
			}
		}
		return out
	}
	return nil
}

func (m *Machine) errorsIs(fr *frame, err, target Iface, depth int) bool {
	if err.T == nil || target.T == nil {
		return err.T == nil && target.T == nil
	}
	if depth > 10 {
		return false
	}
	if types.Comparable(target.T) && types.Identical(err.T, target.T) {
		eq := m.eqDyn(err.V, target.V)
		if m.branch(eq) {
			return true
		}
	}
	if m.hasMethod(err.T, "Is") {
		if r, ok := m.callMethod(fr, err, "Is", target).(*Term); ok && m.branch(r) {
			return true
		}
	}
	for _, u := range m.unwrapErr(fr, err) {
		if m.errorsIs(fr, u, target, depth+1) {
			return true
		}
	}
	return false
}

func (m *Machine) errorsAs(fr *frame, err, target Iface, depth int) bool {
	if err.T == nil {
		return false
	}
	if depth > 10 {
		return false
	}
	pt, ok := target.T.Underlying().(*types.Pointer)
	if !ok {
		panic(targetPanic{m.newErrorString(ConcStr("errors: target must be a non-nil pointer"))})
	}
	tt := pt.Elem()
	tp := target.V.(*Value)
	if it, isI := tt.Underlying().(*types.Interface); isI {
		if types.Implements(err.T, it) {
			*tp = err
			return true
		}
	} else if types.Identical(err.T, tt) {
		*tp = err.V
		return true
	}
	if m.hasMethod(err.T, "As") {
		if r, ok := m.callMethod(fr, err, "As", target).(*Term); ok && m.branch(r) {
			return true
		}
	}
	for _, u := range m.unwrapErr(fr, err) {
		if m.errorsAs(fr, u, target, depth+1) {
			return true
		}
	}
	return false
}

// fmtValue renders one operand for %v/%s/%d/%q.
func (m *Machine) fmtValue(fr *frame, verb byte, v Value) *Str {
	itf, ok := v.(Iface)
	if !ok {
		return ConcStr("?")
	}
	if itf.T == nil {
		return ConcStr("<nil>")
	}
	switch x := itf.V.(type) {
	case *Str:
		if _, isBasic := itf.T.(*types.Basic); isBasic || !m.hasMethod(itf.T, "String") && !m.hasMethod(itf.T, "Error") {
			if verb == 'q' {
				return StrConcat(StrConcat(ConcStr("\""), x), ConcStr("\""))
			}
			return x
		}
	case *Term:
		if !m.hasMethod(itf.T, "String") && !m.hasMethod(itf.T, "Error") {
			if x.IsConst() {
				switch x.S.K {
				case SBool:
					return ConcStr(fmt.Sprint(x.C == 1))
				case SFP:
					return ConcStr(fmt.Sprint(x.FVal()))
				default:
					if _, signed, _ := intInfo(itf.T); signed {
						return ConcStr(fmt.Sprint(x.SVal()))
					}
					return ConcStr(fmt.Sprint(x.C))
				}
			}
			return m.opaqueStr("fmt")
		}
	}
	if m.hasMethod(itf.T, "Error") {
		if s, ok := m.callMethod(fr, itf, "Error").(*Str); ok {
			return s
		}
	}
	if m.hasMethod(itf.T, "String") {
		if s, ok := m.callMethod(fr, itf, "String").(*Str); ok {
			return s
		}
	}
	return ConcStr("<" + itf.T.String() + ">")
}

// opaqueStr: an unconstrained short symbolic string standing for formatted output we do not model.
func (m *Machine) opaqueStr(why string) *Str {
	n := MkVar(m.freshName("opaque_"+why+"_len"), BV(64))
	bs := make([]*Term, 3)
	for i := range bs {
		bs[i] = MkVar(m.freshName("opaque_"+why), BV(8))
	}
	m.assume(BvCmp("bvule", n, MkBV(64, 3)))
	return &Str{n: n, b: bs}
}

func (m *Machine) sprintf(fr *frame, format string, args []Value) *Str {
	var res *Str = emptyStr
	ai := 0
	lit := strings.Builder{}
	flush := func() {
		if lit.Len() > 0 {
			res = StrConcat(res, ConcStr(lit.String()))
			lit.Reset()
		}
	}
	for i := 0; i < len(format); i++ {
		c := format[i]
		if c != '%' {
			lit.WriteByte(c)
			continue
		}
		if i+1 < len(format) && format[i+1] == '%' {
			lit.WriteByte('%')
			i++
			continue
		}
		j := i + 1
		for j < len(format) && strings.ContainsRune("+-# 0123456789.", rune(format[j])) {
			j++
		}
		if j >= len(format) {
			break
		}
		verb := format[j]
		flush()
		if ai < len(args) {
			res = StrConcat(res, m.fmtValue(fr, verb, args[ai]))
			ai++
		} else {
			res = StrConcat(res, ConcStr("%!"+string(verb)+"(MISSING)"))
		}
		i = j
	}
	flush()
	return res
}

var _ = ssa.NaiveForm

// callerInRepo: the intrinsic was called directly from code of the repository under test (or a harness).
func (m *Machine) callerInRepo(fr *frame) bool {
	if fr == nil || fr.caller == nil || fr.caller.fn == nil {
		return false
	}
	f := fr.caller.fn
	for f.Parent() != nil {
		f = f.Parent()
	}
	return f.Pkg != nil && strings.HasPrefix(f.Pkg.Pkg.Path(), "github.com/basecamp/kamal-proxy")
}
