package main

import (
	"bufio"
	"fmt"
	"io"
	"os"
	"os/exec"
	"sort"
	"strconv"
	"strings"
	"time"
)

type SolverStats struct {
	Sat, Unsat, Unknown int
	Time                time.Duration
	Errors              int
}

type Solver struct {
	depth     int            // scopes pushed for the current path (one per decision)
	declLevel map[string]int // variable -> scope depth at which it was declared
	cmd       *exec.Cmd
	in        io.WriteCloser
	out       *bufio.Reader
	p         *printer
	stats     SolverStats
	log       io.Writer
	binName   string
	timeout   int
	dead      bool
}

var solverBin = "z3"

func NewSolver(timeoutMs int) *Solver {
	s := &Solver{binName: solverBin, timeout: timeoutMs}
	s.start()
	return s
}

func (s *Solver) start() {
	var cmd *exec.Cmd
	switch s.binName {
	case "cvc5":
		cmd = exec.Command("cvc5", "--incremental", "--produce-models", "--lang=smt2", fmt.Sprintf("--tlimit-per=%d", s.timeout))
	default:
		cmd = exec.Command(s.binName, "-in", "-smt2")
	}
	in, err := cmd.StdinPipe()
	if err != nil {
		panic(err)
	}
	out, err := cmd.StdoutPipe()
	if err != nil {
		panic(err)
	}
	cmd.Stderr = nil
	if err := cmd.Start(); err != nil {
		panic(fmt.Sprintf("cannot start solver %s: %v", s.binName, err))
	}
	s.cmd, s.in, s.out = cmd, in, bufio.NewReaderSize(out, 1<<20)
	if lp := os.Getenv("GOSYM_SOLVERLOG"); lp != "" && s.log == nil {
		f, _ := os.Create(fmt.Sprintf("%s.%d", lp, cmd.Process.Pid))
		s.log = f
	}
	s.p = newPrinter()
	if s.binName == "cvc5" {
		s.send("(set-logic ALL)\n")
	} else {
		s.send(fmt.Sprintf("(set-option :timeout %d)\n", s.timeout))
	}
	s.send("(push)\n")
	s.dead = false
	s.depth = 0
	s.declLevel = map[string]int{}
}

func (s *Solver) Close() {
	if s.cmd != nil {
		s.in.Close()
		s.cmd.Process.Kill()
		s.cmd.Wait()
		s.cmd = nil
	}
}

func (s *Solver) send(str string) {
	if s.log != nil {
		io.WriteString(s.log, str)
	}
	if _, err := io.WriteString(s.in, str); err != nil {
		s.dead = true
	}
}

// Reset drops everything asserted in the current execution.
func (s *Solver) Reset() {
	s.ResetTo(0)
}

// ResetTo keeps the first keep decision scopes of the previous path (their assertions are identical on the new
// path) and drops the rest.
func (s *Solver) ResetTo(keep int) {
	if s.dead {
		s.Close()
		s.start()
		return
	}
	if keep > s.depth {
		keep = s.depth
	}
	if keep == 0 {
		s.send(fmt.Sprintf("(pop %d)\n(push)\n", s.depth+1))
		s.depth = 0
		s.declLevel = map[string]int{}
	} else if s.depth > keep {
		s.send(fmt.Sprintf("(pop %d)\n", s.depth-keep))
		s.depth = keep
		for n, l := range s.declLevel {
			if l > keep {
				delete(s.declLevel, n)
			}
		}
	}
	oldN := s.p.n
	s.p = newPrinter()
	s.p.n = oldN // definition names stay unique across the retained scopes
	for n := range s.declLevel {
		s.p.decls[n] = Sort{} // known to the solver already
	}
	s.p.known = s.declLevel
}

// PushScope opens the scope that follows a decision.
func (s *Solver) PushScope() {
	s.flushDefs()
	s.send("(push)\n")
	s.depth++
}

func (s *Solver) flushDefs() {
	for _, n := range s.p.newDecls {
		s.declLevel[n] = s.depth
	}
	s.p.newDecls = s.p.newDecls[:0]
	if s.p.out.Len() > 0 {
		s.send(s.p.out.String())
		s.p.out.Reset()
	}
}

func (s *Solver) Assert(t *Term) {
	str := s.p.str(t)
	s.flushDefs()
	s.send("(assert " + str + ")\n")
}

type SatResult int

const (
	Unsat SatResult = iota
	Sat
	Unknown
)

func (r SatResult) String() string { return [...]string{"unsat", "sat", "unknown"}[r] }

func (s *Solver) readLine() string {
	line, err := s.out.ReadString('\n')
	if err != nil {
		s.dead = true
		return "(error \"solver died\")"
	}
	return strings.TrimSpace(line)
}

func (s *Solver) readResult() SatResult {
	for {
		line := s.readLine()
		switch {
		case line == "sat":
			s.stats.Sat++
			return Sat
		case line == "unsat":
			s.stats.Unsat++
			return Unsat
		case line == "unknown" || strings.HasPrefix(line, "timeout"):
			s.stats.Unknown++
			return Unknown
		case strings.HasPrefix(line, "(error"):
			s.stats.Errors++
			s.stats.Unknown++
			// an error line may be followed by the real answer; we treat the query as inconclusive.
			// consume the following answer if the error did not abort the check-sat.
			if s.dead {
				return Unknown
			}
			fmt.Println("SOLVER-ERROR:", line)
			continue
		case line == "":
			if s.dead {
				return Unknown
			}
			continue
		default:
			// ignore unexpected chatter
			continue
		}
	}
}

// Check decides satisfiability of the current assertions.
func (s *Solver) Check() SatResult {
	t0 := time.Now()
	s.send("(check-sat)\n")
	r := s.readResult()
	s.stats.Time += time.Since(t0)
	return r
}

// CheckWith decides satisfiability of current assertions ∧ extra (not kept).
func (s *Solver) CheckWith(extra *Term, keepModel bool) SatResult {
	if extra.IsFalse() {
		return Unsat
	}
	str := s.p.str(extra)
	s.flushDefs()
	t0 := time.Now()
	s.send("(push)\n(assert " + str + ")\n(check-sat)\n")
	r := s.readResult()
	s.stats.Time += time.Since(t0)
	if !(keepModel && r == Sat) {
		s.send("(pop)\n")
	}
	return r
}

// PopModelScope must be called after CheckWith(keepModel=true) returned Sat and the model was read.
func (s *Solver) PopModelScope() { s.send("(pop)\n") }

// Model returns the values of all declared variables (call right after a Sat answer).
func (s *Solver) Model() map[string]uint64 {
	res := map[string]uint64{}
	var names []string
	for n := range s.declLevel {
		names = append(names, n)
	}
	sort.Strings(names)
	if len(names) == 0 {
		return res
	}
	s.send("(get-value (" + strings.Join(names, " ") + "))\n")
	// read a balanced s-expression
	var sb strings.Builder
	depth := 0
	started := false
	for {
		line := s.readLine()
		if strings.HasPrefix(line, "(error") {
			s.stats.Errors++
			return res
		}
		sb.WriteString(line)
		sb.WriteByte(' ')
		for _, c := range line {
			if c == '(' {
				depth++
				started = true
			} else if c == ')' {
				depth--
			}
		}
		if started && depth == 0 {
			break
		}
		if s.dead {
			return res
		}
	}
	toks := tokenize(sb.String())
	// format: ( (name value) (name value) ... ) ; value may be nested (fp ...)
	i := 1
	for i < len(toks)-1 {
		if toks[i] != "(" {
			i++
			continue
		}
		name := toks[i+1]
		j := i + 2
		// collect value tokens until the matching ')'
		d := 0
		var val []string
		for ; j < len(toks); j++ {
			if toks[j] == "(" {
				d++
			} else if toks[j] == ")" {
				if d == 0 {
					break
				}
				d--
			}
			val = append(val, toks[j])
		}
		res[name] = parseValue(val)
		i = j + 1
	}
	return res
}

func tokenize(s string) []string {
	var toks []string
	cur := strings.Builder{}
	flush := func() {
		if cur.Len() > 0 {
			toks = append(toks, cur.String())
			cur.Reset()
		}
	}
	for _, c := range s {
		switch c {
		case '(', ')':
			flush()
			toks = append(toks, string(c))
		case ' ', '\t', '\n':
			flush()
		default:
			cur.WriteRune(c)
		}
	}
	flush()
	return toks
}

func parseValue(v []string) uint64 {
	// integers: 5 or (- 5)
	if len(v) == 4 && v[0] == "(" && v[1] == "-" {
		n, _ := strconv.ParseInt(v[2], 10, 64)
		return uint64(-n)
	}
	if len(v) == 1 {
		t := v[0]
		if n, err := strconv.ParseInt(t, 10, 64); err == nil {
			return uint64(n)
		}
		switch {
		case t == "true":
			return 1
		case t == "false":
			return 0
		case strings.HasPrefix(t, "#x"):
			n, _ := strconv.ParseUint(t[2:], 16, 64)
			return n
		case strings.HasPrefix(t, "#b"):
			n, _ := strconv.ParseUint(t[2:], 2, 64)
			return n
		}
	}
	// (_ bvN w)
	if len(v) >= 4 && v[0] == "(" && v[1] == "_" && strings.HasPrefix(v[2], "bv") {
		n, _ := strconv.ParseUint(v[2][2:], 10, 64)
		return n
	}
	return 0
}
